"""C18 - discovery reports each answering console once, correctly, and terminates (structural clauses)."""
from __future__ import annotations

import ast

from ..model import AnalysisError, dotted, norm_text, unparse, walk_no_nested
from ..q import find_case_table, NONEXC, Fn
from .common import fn_of

LEVEL = "other"
EXPLANATION = (
    "Static analysis of comms/discovery.py, both discovery decoders and factory.discover: R1 folded constants (0.5 s, 3 requests), the request "
    "loop's condition is `not responses and count < MAX` with an unconditional increment (ranking function => at most MAX sends, terminates), "
    "each iteration sends then sleeps the interval, the transport is closed and the collected responses returned on every path, no return inside "
    "the loop, the listener is installed after every request; the number of iterations is derived by finite evaluation of the loop counter; R2 "
    "request bytes and ports equal the vendor strings, both decoders split with maxsplit = parts-1 (commas in the AT5 name survive), compare the "
    "id at index 2 and take host/serial/id(/name) from the vendor positions; R3 duplicates collapse: responses are collected in a set and both "
    "response classes are frozen dataclasses; R4 foreign datagrams: match() false returns before decode, DecodeError is caught, only instances of"
    " the response type are forwarded; R5 factory.discover maps each response class to the client of its generation with port 9004/9005 and the "
    "response's host/id/serial(/name). Arrival timing is not decided."
    " Added later: match() is decided on witness datagrams in the vendor format (commas in the name, empty and non-ASCII names) propagated through the source by the checker's interpreter; the search loop's condition is evaluated for an empty and a non-empty response set while the counter runs."
    ' Rounds 7-8: R2 also evaluates decode() on vendor-format and foreign witness datagrams (exact fields / DecodeError); R4 also: datagram_received keeps no state between datagrams.'
    ' Rounds 9-10: R2 also: equality and hash of the response cover every field; R4 also: no callback of the discovery protocol raises; R5 also: _search puts no deadline on the searches and cancels none.'
)
ASSUMPTIONS = ["vendor discovery formats: AT4 'IP,MAC,AirTouch4,ID' on UDP 49004 (reverse engineered), AT5 'IP,ConsoleID,AirTouch5,AirTouchID,Name' on UDP 49005 (protocol v1.2 p.13)"]
FLOORS = {"C18.R1": 8, "C18.R2": 14, "C18.R3": 3, "C18.R4": 4, "C18.R5": 6}

DISC = "pyairtouch.comms.discovery"


def run(ctx):
    r1(ctx)
    r2(ctx)
    r3(ctx)
    r4(ctx)
    r5(ctx)


def r1(ctx):
    R = "C18.R1"
    m = ctx.repo.module(DISC)
    iv = ctx.repo.try_fold(m, m.get_const_expr("_DISCOVERY_REQUEST_INTERVAL"))
    mx = ctx.repo.try_fold(m, m.get_const_expr("_DISCOVERY_MAX_REQUESTS"))
    ctx.check(iv == 0.5, R, "const:_DISCOVERY_REQUEST_INTERVAL", m, m.assign_nodes["_DISCOVERY_REQUEST_INTERVAL"], "0.5 s", repr(iv))
    ctx.check(mx == 3, R, "const:_DISCOVERY_MAX_REQUESTS", m, m.assign_nodes["_DISCOVERY_MAX_REQUESTS"], "3", repr(mx))
    f = fn_of(ctx, DISC, "AirTouchDiscoverer.search")
    g = f.cfg
    # the datagram endpoint by role: the local bound to the result of `await self._open_socket(...)`
    tvar = "transport"
    for n_, c_ in f.calls("self._open_socket"):
        if isinstance(n_.ast, ast.Assign) and isinstance(n_.ast.targets[0], ast.Name):
            tvar = n_.ast.targets[0].id
    sends = f.calls(f"{tvar}.sendto")
    sleeps = f.calls("asyncio.sleep")
    loops = [x for x in ast.walk(f.node) if isinstance(x, (ast.While, ast.For))]
    if len(loops) != 1 or not sends:
        ctx.violation(R, "search:loop", m, f.node, "one request loop containing transport.sendto", f"{len(loops)} loops, {len(sends)} sends")
        return
    lp = loops[0]
    in_loop = all(any(x is c for x in ast.walk(lp)) for _, c in sends + sleeps)
    ctx.check(in_loop and len(sends) == 1 and len(sleeps) == 1, R, "search:send-then-sleep", m, lp, "each iteration sends one request and then sleeps one interval", f"{len(sends)} sends / {len(sleeps)} sleeps in the loop")
    if sends and sleeps:
        order = g.exists_path(sends[0][0].id, sleeps[0][0].id, avoid=[n.id for n in g.nodes if n.kind == "join"])
        ctx.check(order and sleeps[0][0].awaits, R, "search:order", m, lp, "send before the awaited sleep within one iteration (answers are collected during the sleep)", "sleep precedes send")
        heads = [n.id for n in g.nodes if n.kind in ("join", "for") and n.ast is lp] + [g.exit.id]
        listens = g.all_paths_pass(sends[0][0].id, heads, [sleeps[0][0].id], NONEXC)
        ctx.check(listens, R, "search:listens-after-every-request", m, lp, "every request is followed by one interval of listening before the loop condition is evaluated again or the socket is closed (also the last request)", "a path leaves the iteration after sendto() without sleeping")
        txt = f.expand_text(sleeps[0][1].args[0], sleeps[0][0]) if sleeps[0][1].args else ""
        ctx.check(ctx.repo.try_fold(m, f.expand(sleeps[0][1].args[0], sleeps[0][0])) == 0.5 if sleeps[0][1].args else False, R, "search:spacing", m, sleeps[0][1], "sleep(_DISCOVERY_REQUEST_INTERVAL) = 0.5 s", txt)
        a0 = sends[0][1].args[0] if sends[0][1].args else None
        ctx.check(a0 is not None and f.expand_text(a0, sends[0][0]) == "self._discovery_config.request_factory().data", R, "search:request-bytes", m, sends[0][1], "sends request_factory().data", f.expand_text(a0, sends[0][0]) if a0 is not None else "")
        a1 = sends[0][1].args[1] if len(sends[0][1].args) > 1 else None
        ctx.check(a1 is not None and f.expand_text(a1, sends[0][0]) == "(self._remote_host, self._discovery_config.remote_port)", R, "search:destination", m, sends[0][1], "to (remote_host, remote_port)", f.expand_text(a1, sends[0][0]) if a1 is not None else "")
    # number of sends: finite evaluation of the loop with responses staying empty
    n_iter, stops_on_response = _loop_iterations(ctx, m, f, lp)
    ctx.check(n_iter == 3, R, "search:at-most-three-requests", m, lp, "with no answer exactly _DISCOVERY_MAX_REQUESTS = 3 requests are sent, then the loop ends", f"{n_iter} iteration(s)" if n_iter is not None else "loop bound not derivable (may not terminate)")
    ctx.check(stops_on_response, R, "search:stops-after-first-answered-interval", m, lp, "the loop ends as soon as `responses` is non-empty", "the loop condition ignores `responses`")
    closes = [n for n, c in f.calls(f"{tvar}.close")]
    rets = [n for n in g.nodes if n.kind == "stmt" and isinstance(n.ast, ast.Return)]
    ok = bool(closes) and g.all_paths_pass(g.entry.id, [g.exit.id], [c.id for c in closes], NONEXC) and all(not any(x is c.ast for x in ast.walk(lp)) for c in closes)
    ctx.check(ok, R, "search:closes-transport", m, f.node, "transport.close() after the loop on every normal path", "missing or inside the loop")
    ok = len(rets) == 1 and rets[0].ast.value is not None and {x.id for x in ast.walk(rets[0].ast.value) if isinstance(x, ast.Name)} - {"list", "sorted", "tuple"} == {"responses"}
    ctx.check(ok, R, "search:returns-collected", m, f.node, "returns the collected responses (list(responses))", "; ".join(norm_text(r.ast) for r in rets))


def _loop_iterations(ctx, m, f, lp):
    """Evaluate the loop counter with `responses` empty: number of iterations (None if unbounded / not understood);
    second result: does a non-empty `responses` stop the loop."""
    stops = False
    if isinstance(lp, ast.While):
        # the condition is evaluated by the checker's interpreter for an empty and a non-empty `responses` while the counter
        # runs: any spelling of the test (De Morgan, flipped comparison, renamed counter) gives the same table
        from ..minieval import Mini, Unsupported

        test = lp.test
        names = {x.id for x in ast.walk(test) if isinstance(x, ast.Name)}
        incs = [x for x in ast.walk(lp) if isinstance(x, ast.AugAssign) and isinstance(x.target, ast.Name) and x.target.id in names and isinstance(x.op, ast.Add)]
        top = [s_ for s_ in lp.body if s_ in incs]
        if len(incs) != 1 or len(top) != 1:
            return None, False  # no counter, or it is not advanced unconditionally once per iteration
        var = incs[0].target.id
        init = None
        for s_ in f.node.body:
            if isinstance(s_, ast.Assign) and isinstance(s_.targets[0], ast.Name) and s_.targets[0].id == var:
                init = ctx.repo.try_fold(m, s_.value)
        step = ctx.repo.try_fold(m, incs[0].value)
        if not isinstance(init, int) or not isinstance(step, int) or step <= 0:
            return None, False
        resp = next((nm for nm in names if nm != var and nm in ("responses",) ), None) or next((nm for nm in sorted(names) if nm != var and not nm.startswith("_") and ctx.repo.try_fold(m, ast.Name(id=nm, ctx=ast.Load())) is None), None)

        def cond(v, answered):
            env = {var: v}
            if resp is not None:
                env[resp] = ("answer",) if answered else ()
            try:
                return bool(Mini(ctx.repo, m, {}).ev(test, env))
            except Unsupported as ex:
                raise AnalysisError(f"{m.relpath}: search(): loop condition left the evaluable fragment: {ex}")

        n, v = 0, init
        stops = resp is not None
        while n < 1000:
            if resp is not None and cond(v, True):
                stops = False
            if not cond(v, False):
                return n, stops
            v += step
            n += 1
        return None, stops
    if isinstance(lp, ast.For) and isinstance(lp.iter, ast.Call) and dotted(lp.iter.func) == "range":
        args = [ctx.repo.try_fold(m, a) for a in lp.iter.args]
        if any(not isinstance(a, int) for a in args):
            return None, stops
        n = len(range(*args))
        for x in ast.walk(lp):
            if isinstance(x, ast.If) and isinstance(x.test, ast.Name) and x.test.id == "responses" and any(isinstance(y, ast.Break) for y in x.body):
                stops = True
        return n, stops
    return None, stops


def r2(ctx):
    R = "C18.R2"
    spec = {
        "at4": dict(port=49004, req=b"HF-A11ASSISTHREAD", rid=b",AirTouch4,", parts=4, idx=dict(host=0, serial=1, airtouch_id=3)),
        "at5": dict(port=49005, req=b"::REQUEST-POLYAIRE-AIRTOUCH-DEVICE-INFO:;", rid=b",AirTouch5,", parts=5, idx=dict(host=0, serial=1, airtouch_id=3, name=4)),
    }
    for gen, s in spec.items():
        m = ctx.repo.module(f"pyairtouch.{gen}.comms.discovery")
        for name, want in (("PORT", s["port"]), ("_REQUEST_DATA", s["req"]), ("_RESPONSE_ID", s["rid"]), ("_NUM_RESPONSE_PARTS", s["parts"])):
            v = ctx.repo.try_fold(m, m.get_const_expr(name))
            ctx.check(v == want, R, f"{gen}:const:{name}", m, m.assign_nodes[name], repr(want), repr(v))
        cfg = m.get_const_expr("CONFIG")
        kw = {k.arg: k.value for k in cfg.keywords} if isinstance(cfg, ast.Call) else {}
        ports = (ctx.repo.try_fold(m, kw.get("local_port")) if "local_port" in kw else None, ctx.repo.try_fold(m, kw.get("remote_port")) if "remote_port" in kw else None)
        ctx.check(ports == (s["port"], s["port"]), R, f"{gen}:CONFIG:ports", m, cfg, f"local and remote UDP port {s['port']}", str(ports))
        cls = "At4" if gen == "at4" else "At5"
        if isinstance(kw.get("decoder"), ast.Name) and kw["decoder"].id in m.assign_nodes:
            kw["decoder"] = m.get_const_expr(kw["decoder"].id)  # a module-level name for the decoder instance
        ok = dotted(kw.get("request_factory")) == f"{cls}DiscoveryRequest" and dotted(kw.get("response_type")) == f"{cls}DiscoveryResponse" and isinstance(kw.get("decoder"), ast.Call) and dotted(kw["decoder"].func) == f"{cls}DiscoveryDecoder"
        ctx.check(ok, R, f"{gen}:CONFIG:types", m, cfg, f"request {cls}DiscoveryRequest, response {cls}DiscoveryResponse, decoder {cls}DiscoveryDecoder()", norm_text(cfg)[:160])
        rq = m.get_class(f"{cls}DiscoveryRequest").methods.get("data")
        rets = [x for x in ast.walk(rq) if isinstance(x, ast.Return)] if rq else []
        ctx.check(len(rets) == 1 and ctx.repo.try_fold(m, rets[0].value) == s["req"], R, f"{gen}:request.data", m, rq, "the request datagram is the vendor string", norm_text(rets[0].value) if rets else "")
        dec = Fn(ctx.repo, m, f"{cls}DiscoveryDecoder.decode")
        ctx.fn(m, f"{cls}DiscoveryDecoder.decode")
        splits = dec.calls("buffer.split")
        ok = False
        found = "no buffer.split call"
        for n, c in splits:
            sep = ctx.repo.try_fold(m, c.args[0]) if c.args else None
            mxs = ctx.repo.try_fold(m, dec.expand(c.args[1], n)) if len(c.args) > 1 else next((ctx.repo.try_fold(m, k.value) for k in c.keywords if k.arg == "maxsplit"), None)
            found = f"split({sep!r}, {mxs!r})"
            ok = sep == b"," and mxs == s["parts"] - 1
        ctx.check(ok, R, f"{gen}:decode:split", m, dec.node, f"split(b',', {s['parts'] - 1}): at most {s['parts']} parts, commas in the last part are preserved", found)
        # part count test raises DecodeError
        cnt = dec.tests(lambda e: isinstance(e, ast.Compare) and isinstance(e.left, ast.Call) and dotted(e.left.func) == "len")
        ok = False
        for t in cnt:
            v = ctx.repo.try_fold(m, t.ast.comparators[0])
            if v == s["parts"] and isinstance(t.ast.ops[0], ast.NotEq):
                fb = dec.branch(t, "true")
                reach = dec.cfg.reachable(fb.id, labels=NONEXC)
                ok = dec.cfg.exit.id not in reach
        ctx.check(ok, R, f"{gen}:decode:part-count", m, dec.node, f"a datagram without exactly {s['parts']} parts raises DecodeError", "count not enforced")
        idt = dec.tests(lambda e: isinstance(e, ast.Compare) and len(e.ops) == 1)
        ok = False
        found = "response id not compared"
        for t in idt:
            te = dec.expand(t.ast, t)
            l, r = te.left, te.comparators[0]
            if not isinstance(l, ast.Subscript) and isinstance(r, ast.Subscript):
                l, r = r, l
            if not isinstance(l, ast.Subscript):
                continue
            i = ctx.repo.try_fold(m, l.slice)
            v = ctx.repo.try_fold(m, r)
            found = f"part[{i}] compared with {v!r}"
            if i == 2 and v == s["rid"].strip(b",") and isinstance(t.ast.ops[0], ast.NotEq):
                reach = dec.cfg.reachable(dec.branch(t, "true").id, labels=NONEXC)
                ok = dec.cfg.exit.id not in reach
        ctx.check(ok, R, f"{gen}:decode:id-in-third-position", m, dec.node, f"part[2] must equal {s['rid'].strip(b',')!r}, else DecodeError", found)
        rets = [n for n in dec.cfg.nodes if n.kind == "stmt" and isinstance(n.ast, ast.Return) and isinstance(n.ast.value, ast.Call) and dotted(n.ast.value.func) == f"{cls}DiscoveryResponse"]
        got = {}
        for n in rets:
            for k in n.ast.value.keywords:
                v = dec.expand(k.value, n)
                while isinstance(v, ast.Call) and isinstance(v.func, ast.Attribute) and v.func.attr == "decode":
                    v = v.func.value
                if isinstance(v, ast.Subscript):
                    got[k.arg] = ctx.repo.try_fold(m, v.slice)
        # (a constructor call whose fields are not spelled as keyword = part[i] is decided by the witness datagrams below alone)
        ctx.check(got == s["idx"] or not got, R, f"{gen}:decode:field-positions", m, dec.node, f"fields from parts {s['idx']}", str(got))
        # two answers are one entry only when they are equal in every field: the result is a set, so equality and hash of the
        # response decide which consoles survive (a field left out of the comparison merges two consoles / two addresses)
        rci = m.get_class(f"{cls}DiscoveryResponse")
        ctx.require(rci is not None, f"{m.relpath}: {cls}DiscoveryResponse vanished")
        probs = []
        for dnode in rci.node.decorator_list:
            if isinstance(dnode, ast.Call):
                for k in dnode.keywords:
                    if k.arg in ("eq", "unsafe_hash", "order") and not (k.arg == "eq" and isinstance(k.value, ast.Constant) and k.value.value is True):
                        probs.append(f"@dataclass({k.arg}=...)")
        for st_ in rci.node.body:
            if isinstance(st_, (ast.FunctionDef, ast.AsyncFunctionDef)) and st_.name in ("__eq__", "__hash__", "__ne__"):
                probs.append(f"own {st_.name}")
            if isinstance(st_, ast.AnnAssign) and isinstance(st_.value, ast.Call) and (dotted(st_.value.func) or "").split(".")[-1] == "field":
                for k in st_.value.keywords:
                    if k.arg in ("compare", "hash") and not (isinstance(k.value, ast.Constant) and k.value.value is True):
                        probs.append(f"{norm_text(st_.target)}: field({k.arg}={norm_text(k.value)})")
        ctx.check(rci.is_dataclass and not probs, R, f"{gen}:response-equality-covers-every-field", m, rci.node, "the response is a dataclass whose generated equality and hash compare every field (host, serial, id, name)", "; ".join(probs) or "not a dataclass")
        lenient = [c for c in ast.walk(dec.node) if isinstance(c, ast.Call) and isinstance(c.func, ast.Attribute) and c.func.attr == "decode" and any(k.arg == "errors" for k in c.keywords)]
        ctx.check(not lenient, R, f"{gen}:decode:strict-text", m, (lenient[0] if lenient else dec.node), "text fields are decoded strictly: a datagram with invalid UTF-8 adds nothing (it must not become an entry that ends the search)", norm_text(lenient[0])[:100] if lenient else "")
        mt = m.get_class(f"{cls}DiscoveryDecoder").methods.get("match")
        # truth table of match() over the two facts it may consult (evaluated on the source by sa/minieval.py)
        from ..minieval import Mini, Unsupported

        ok, txt = mt is not None, ""
        if mt is not None:
            bp = mt.args.args[1].arg
            # constant propagation of witness datagrams through match(): every datagram in the vendor response format must be
            # accepted (names with commas, empty names, long names included); what else it accepts is decided by decode()
            ident = s["rid"].strip(b",")
            long_host = b"airtouch-console-living-room.home.example.net"
            long_serial = b"E" + b"0123456789" * 4
            if gen == "at4":
                valid = [b"192.168.1.2,AA:BB:CC:DD:EE:FF," + ident + b",23236426", b"10.0.0.7,0," + ident + b",1", long_host + b"," + long_serial + b"," + ident + b",7"]
            else:
                valid = [b"192.168.1.2,E123456," + ident + b",1000,Home", b"192.168.1.2,E123456," + ident + b",1000,Beach house, upstairs",
                         b"10.0.0.7,0," + ident + b",1,", b"10.0.0.7,0," + ident + b",1,a,b,c,d,e", b"10.0.0.7,0," + ident + b",1," + "caf\u00e9".encode(),
                         long_host + b"," + long_serial + b"," + ident + b",1000,Home", b"255.255.255.255," + long_serial + b"," + ident + b",1," + b"n" * 200]
            rows = []
            for w in valid:
                try:
                    got = Mini(ctx.repo, m, {}).function_value(mt, {bp: w})
                except Unsupported as ex:
                    raise AnalysisError(f"{m.relpath}: match() left the evaluable fragment: {ex}")
                rows.append((w, got))
            ok = all(bool(got) for _, got in rows)
            txt = "; ".join(f"match({w!r}) -> {g}" for w, g in rows if not g) or "all accepted"
        # decode() itself on witness datagrams: every datagram in the vendor format gives exactly its fields (empty and comma-laden
        # names included), anything else is refused with DecodeError
        dci = m.get_class(f"{cls}DiscoveryDecoder")
        dfn = dci.methods.get("decode")
        if dfn is not None and mt is not None:
            bp2 = dfn.args.args[1].arg
            bad = None
            for w in valid:
                parts = w.split(b",", s["parts"] - 1)
                want_f = {k: parts[i].decode("utf-8") for k, i in s["idx"].items()}
                try:
                    got = Mini(ctx.repo, m, {}, dci).function_value(dfn, {bp2: w})
                except Unsupported as ex:
                    raise AnalysisError(f"{m.relpath}: decode() left the evaluable fragment: {ex}")
                gf = {k: v for k, v in getattr(got, "__dict__", {}).items() if not k.startswith("_")}
                if getattr(got, "_cls", None) != f"{cls}DiscoveryResponse" or gf != want_f:
                    bad = f"decode({w[:60]!r}) -> {gf if gf else got!r}, expected {want_f}"
                    break
            foreign = [s["req"], b"", b"junk", b"a,b,c", b"1.2.3.4,S," + (b"AirTouch5" if gen == "at4" else b"AirTouch4") + b",7" + (b"" if gen == "at4" else b",n"), b"1.2.3.4," + ident + b",S,7" + (b"" if gen == "at4" else b",n")]
            for w in foreign:
                if bad:
                    break
                try:
                    got = Mini(ctx.repo, m, {}, dci).function_value(dfn, {bp2: w})
                except Unsupported as ex:
                    raise AnalysisError(f"{m.relpath}: decode() left the evaluable fragment: {ex}")
                is_req = getattr(got, "_cls", None) == f"{cls}DiscoveryRequest"
                if not (got == ("raise", "DecodeError") or (w == s["req"] and is_req)):
                    bad = f"decode({w!r}) -> {getattr(got, '__dict__', got)!r}, expected DecodeError"
            ctx.check(bad is None, R, f"{gen}:decode:witnesses", m, dfn, f"every vendor-format datagram decodes to exactly its fields ({len(valid)} witnesses); other datagrams are refused with DecodeError ({len(foreign)} witnesses)", bad or "")
        ctx.check(ok, R, f"{gen}:match", m, mt, "match() accepts every datagram in the vendor response format (commas in the name, empty and non-ASCII names included; evaluated on witness datagrams by the checker's own interpreter)", txt)


def _collector(ctx, op: Fn):
    """The callable handed to the protocol as `callback=`: resolved to (set expression it adds to, ok flag, description).
    Accepted spellings: a nested async def, or a lambda / functools.partial that forwards to a method or function whose
    body is `<first parameter>.add(<second parameter>)` with the set bound as first argument."""
    m = op.module
    proto = [c for c in ast.walk(op.node) if isinstance(c, ast.Call) and dotted(c.func) == "_DiscoveryDecodeProtocol"]
    if len(proto) != 1:
        return None, False, f"{len(proto)} protocol constructions"
    cbv = next((k.value for k in proto[0].keywords if k.arg == "callback"), None)
    if cbv is None:
        return None, False, "no callback= argument"

    def body_adds(fn, set_param, item_param):
        calls = [x for x in ast.walk(fn) if isinstance(x, ast.Call)]
        return len(calls) == 1 and dotted(calls[0].func) == f"{set_param}.add" and len(calls[0].args) == 1 and dotted(calls[0].args[0]) == item_param

    if isinstance(cbv, ast.Name):
        fn = next((x for x in ast.walk(op.node) if isinstance(x, (ast.AsyncFunctionDef,)) and x.name == cbv.id), None)
        if fn is not None and len(fn.args.args) == 1:
            calls = [x for x in ast.walk(fn) if isinstance(x, ast.Call)]
            if len(calls) == 1 and (dotted(calls[0].func) or "").endswith(".add") and len(calls[0].args) == 1 and dotted(calls[0].args[0]) == fn.args.args[0].arg:
                return ".".join(dotted(calls[0].func).split(".")[:-1]), True, norm_text(calls[0])
        return None, False, f"callback {cbv.id} is not a nested coroutine that adds its argument to a set"
    if isinstance(cbv, ast.Lambda) and isinstance(cbv.body, ast.Call):
        call = cbv.body
        d = dotted(call.func) or ""
        target = None
        skip = 0
        if d.startswith("self.") and d.count(".") == 1 and op.cls is not None and d.split(".")[1] in op.cls.methods:
            target = op.cls.methods[d.split(".")[1]]
            skip = 0 if any((dotted(x) or "") == "staticmethod" for x in target.decorator_list) else 1
        elif d in m.functions:
            target = m.functions[d]
        fixed = [a for a in call.args if not isinstance(a, ast.Starred)]
        if target is not None and isinstance(target, ast.AsyncFunctionDef) and len(fixed) == 1 and len(target.args.args) - skip == 2:
            p0, p1 = target.args.args[skip].arg, target.args.args[skip + 1].arg
            if body_adds(target, p0, p1):
                return dotted(fixed[0]), True, f"{d}({norm_text(fixed[0])}, <response>) -> {p0}.add({p1})"
        return None, False, norm_text(cbv)[:100]
    return None, False, norm_text(cbv)[:100]


def r3(ctx):
    R = "C18.R3"
    f = fn_of(ctx, DISC, "AirTouchDiscoverer.search")
    m = f.module
    vals = [st.value for st in ast.walk(f.node) if isinstance(st, (ast.Assign, ast.AnnAssign)) and st.value is not None and isinstance((st.targets[0] if isinstance(st, ast.Assign) else st.target), ast.Name) and (st.targets[0] if isinstance(st, ast.Assign) else st.target).id == "responses"]
    ok = len(vals) == 1 and isinstance(vals[0], ast.Call) and dotted(vals[0].func) == "set" and not vals[0].args
    ctx.check(ok, R, "search:responses-is-a-set", m, f.node, "responses = set() (identical datagrams collapse)", ", ".join(norm_text(v) for v in vals))
    op = fn_of(ctx, DISC, "AirTouchDiscoverer._open_socket")
    target_set, ok, desc = _collector(ctx, op)
    ok = ok and target_set == op.params[1]
    ctx.check(ok, R, "_open_socket:callback-adds-to-set", m, op.node, f"the response callback adds each response to the set handed to _open_socket ({op.params[1]})", desc)
    passed = [c for n, c in f.calls("self._open_socket")]
    ctx.check(len(passed) == 1 and len(passed[0].args) == 1 and dotted(passed[0].args[0]) == "responses", R, "search:same-set-handed-to-receiver", m, f.node, "the set that is returned is the one the receiver fills", norm_text(passed[0]) if passed else "")
    for gen, cls in (("at4", "At4DiscoveryResponse"), ("at5", "At5DiscoveryResponse")):
        dm = ctx.repo.module(f"pyairtouch.{gen}.comms.discovery")
        ci = dm.get_class(cls)
        ctx.check(ci.is_dataclass and ci.dataclass_frozen, R, f"{gen}:{cls}:frozen-dataclass", dm, ci.node, "@dataclass(frozen=True): value equality and hashable, so duplicates collapse in the set", f"dataclass={ci.is_dataclass} frozen={ci.dataclass_frozen}")


def r4(ctx):
    R = "C18.R4"
    f = fn_of(ctx, DISC, "_DiscoveryDecodeProtocol.datagram_received")
    m, g = f.module, f.cfg
    dec = f.calls("self._decoder.decode")
    mt = f.tests(lambda e: isinstance(e, ast.Call) and dotted(e.func) == "self._decoder.match")
    ok = bool(dec) and bool(mt) and all(g.dominates(f.branch(t, "true").id, n.id) for t in mt for n, _ in dec)
    ctx.check(ok, R, "datagram_received:match-before-decode", m, f.node, "decode() runs only for datagrams accepted by match()", "decode reachable without match")
    for n, c in dec:
        targets = [g.nodes[s] for lbl, s in n.succ if lbl == "exc"]
        ok = any(h.kind == "handler" and any(t.split(".")[-1] in ("DecodeError", "Exception") for t in h.meta["types"]) for h in targets)
        ctx.check(ok, R, "datagram_received:decode-errors-caught", m, c, "DecodeError from decode() is caught (a malformed datagram does not abort the search)", "not caught")
    # each datagram is judged on its own: the handler keeps no memory of earlier datagrams (no sender black-list, no counters),
    # so a malformed datagram cannot make a later well-formed answer of the same console disappear
    stores = []
    for x in walk_no_nested(f.node):
        if isinstance(x, (ast.Assign, ast.AugAssign, ast.AnnAssign)):
            for t_ in (x.targets if isinstance(x, ast.Assign) else [x.target]):
                if (dotted(t_) or "").startswith("self.") or (isinstance(t_, ast.Subscript) and (dotted(t_.value) or "").startswith("self.")):
                    stores.append(x)
        elif isinstance(x, ast.Call) and isinstance(x.func, ast.Attribute) and x.func.attr in ("add", "append", "update", "extend", "setdefault", "insert") and (dotted(x.func.value) or "").startswith("self.") and "task" not in (dotted(x.func.value) or "").lower():
            stores.append(x)
    ctx.check(not stores, R, "datagram_received:keeps-no-state", m, (stores[0] if stores else f.node), "datagram_received stores nothing but the handle of the callback task: every datagram is decided on its own content", f"`{norm_text(stores[0])[:70]}` at line {stores[0].lineno}" if stores else "")
    # the event loop calls the protocol from inside transport.sendto() (error_received) and from its reader callback: an exception
    # raised by one of these callbacks surfaces in search()/discover() (send errors) or is lost with the datagram.  None of them raises.
    pci = m.get_class("_DiscoveryDecodeProtocol")
    ctx.require(pci is not None, f"{m.relpath}: _DiscoveryDecodeProtocol vanished")
    praise = [(mn, x) for mn, mnode in pci.methods.items() if mn != "__init__" for x in walk_no_nested(mnode) if isinstance(x, ast.Raise)]
    ctx.check(not praise, R, "protocol-callbacks-never-raise", m, (praise[0][1] if praise else pci.node), "no callback of the discovery protocol (datagram_received, error_received, connection_lost, ...) raises: a send or receive error on the discovery socket never reaches the caller of discover()", f"{praise[0][0]}: `{norm_text(praise[0][1])[:50]}`" if praise else "")
    tasks = f.calls("create_task")
    it = f.tests(lambda e: isinstance(e, ast.Call) and dotted(e.func) == "isinstance" and len(e.args) == 2 and dotted(e.args[1]) == "self._response_type")
    ok = bool(tasks) and bool(it) and all(g.dominates(f.branch(t, "true").id, n.id) for t in it for n, _ in tasks)
    ctx.check(ok, R, "datagram_received:only-responses-forwarded", m, f.node, "only instances of the configured response type reach the callback (request echoes are dropped)", "unguarded")
    for n, c in tasks:
        ce = c
        if c.args and isinstance(c.args[0], ast.Name):
            u = f.unique_def_value(c.args[0].id, n)  # an explaining local for the coroutine is read through
            if u is not None and u[1] is not None:
                ce = u[1]
        inner = [x for x in ast.walk(ce) if isinstance(x, ast.Call) and dotted(x.func) == "self._callback"]
        v = n.ast.targets[0].id if isinstance(n.ast, ast.Assign) and isinstance(n.ast.targets[0], ast.Name) else None
        msgv = dec[0][0].ast.targets[0].id if dec and isinstance(dec[0][0].ast, ast.Assign) else None
        ctx.check(len(inner) == 1 and len(inner[0].args) == 1 and dotted(inner[0].args[0]) == msgv, R, "datagram_received:forwards-decoded-message", m, c, "the callback receives the decoded message", norm_text(c)[:100])
    proto = [c for c in ast.walk(ctx.repo.module(DISC).tree) if isinstance(c, ast.Call) and dotted(c.func) == "_DiscoveryDecodeProtocol"]
    ok = False
    for c in proto:
        kw = {k.arg: norm_text(k.value) for k in c.keywords}
        op_ = fn_of(ctx, DISC, "AirTouchDiscoverer._open_socket")
        ok = kw.get("response_type") == "self._discovery_config.response_type" and kw.get("decoder") == "self._discovery_config.decoder" and _collector(ctx, op_)[1]
    ctx.check(ok, R, "_open_socket:protocol-wiring", m, None, "the protocol gets the config's response_type/decoder and the collecting callback", norm_text(proto[0])[:160] if proto else "no construction")


def r5(ctx):
    R = "C18.R5"
    fm = ctx.repo.module("pyairtouch.factory")
    f = Fn(ctx.repo, fm, "discover")
    ctx.fn(fm, "discover")
    for gen, mod, port in (("at4", "pyairtouch.at4.api", 9004), ("at5", "pyairtouch.at5.api", 9005)):
        am = ctx.repo.module(mod)
        v = ctx.repo.try_fold(am, am.get_const_expr("DEFAULT_PORT_NUMBER"))
        ctx.check(v == port, R, f"{gen}:DEFAULT_PORT_NUMBER", am, am.assign_nodes["DEFAULT_PORT_NUMBER"], str(port), repr(v))
    table = find_case_table(f.node, "response")
    ctx.require(table is not None, "factory.discover: no case distinction on the response type")
    want = {
        "At4DiscoveryResponse": ("_connect_airtouch_4", {"host": "response.host", "port": "at4_api.DEFAULT_PORT_NUMBER", "airtouch_id": "response.airtouch_id", "serial": "response.serial"}),
        "At5DiscoveryResponse": ("_connect_airtouch_5", {"host": "response.host", "port": "at5_api.DEFAULT_PORT_NUMBER", "airtouch_id": "response.airtouch_id", "serial": "response.serial", "name": "response.name"}),
    }
    for kind, kexpr, cbody in table:
        ci = ctx.repo.resolve_class(fm, kexpr) if kind == "isinstance" else None
        if ci is None or ci.name not in want:
            continue
        fn_name, kws = want.pop(ci.name)
        c = type("Case", (), {"body": cbody, "pattern": kexpr})
        calls = [x for s in c.body for x in ast.walk(s) if isinstance(x, ast.Call) and dotted(x.func) == fn_name]
        ok = len(calls) == 1
        got = {k.arg: norm_text(k.value) for k in calls[0].keywords} if ok else {}
        ok = ok and all(got.get(k) == v for k, v in kws.items())
        ctx.check(ok, R, f"discover:{ci.name}", fm, c.pattern, f"{fn_name}({', '.join(f'{k}={v}' for k, v in kws.items())})", str(got))
        apps = [x for s in c.body for x in ast.walk(s) if isinstance(x, ast.Call) and dotted(x.func) == "airtouches.append"]
        ctx.check(len(apps) == 1, R, f"discover:{ci.name}:appended", fm, c.pattern, "the client is appended to the result once", f"{len(apps)} appends")
    ctx.check(not want, R, "discover:both-generations", fm, f.node, "both response classes are handled", f"unhandled: {sorted(want)}")
    for fn_name, reg, cls in (("_connect_airtouch_4", "at4_registry.INSTANCE", "AirTouch4"), ("_connect_airtouch_5", "at5_registry.INSTANCE", "AirTouch5")):
        cf = fm.get_function(fn_name)
        socks = [x for x in ast.walk(cf) if isinstance(x, ast.Call) and (dotted(x.func) or "").endswith("AirTouchSocket")]
        clients = [x for x in ast.walk(cf) if isinstance(x, ast.Call) and (dotted(x.func) or "").endswith("." + cls)]
        ok = len(socks) == 1 and len(clients) == 1
        skw = {k.arg: norm_text(k.value) for k in socks[0].keywords} if ok else {}
        ckw = {k.arg: norm_text(k.value) for k in clients[0].keywords} if ok else {}
        # the client gets the socket built here: directly, or through whatever local holds it
        sock_ok = False
        if ok:
            sv = next((k.value for k in clients[0].keywords if k.arg == "socket"), None)
            if sv is socks[0] or (isinstance(sv, ast.Call) and sv is socks[0]):
                sock_ok = True
            elif isinstance(sv, ast.Name):
                binds = [x for x in ast.walk(cf) if isinstance(x, (ast.Assign, ast.AnnAssign)) and any(isinstance(t, ast.Name) and t.id == sv.id for t in (x.targets if isinstance(x, ast.Assign) else [x.target]))]
                sock_ok = len(binds) == 1 and binds[0].value is socks[0]
        ok = ok and skw.get("host") == "host" and skw.get("port") == "port" and skw.get("registry") == reg and ckw.get("airtouch_id") == "airtouch_id" and ckw.get("serial") == "serial" and ckw.get("name") == "name" and sock_ok
        ctx.check(ok, R, f"{fn_name}:wiring", fm, cf, f"socket(host, port, {reg}) and {cls}(airtouch_id, serial, name, socket)", f"{skw} {ckw}")
    sf = fm.get_function("_search")
    loops = [x for x in ast.walk(sf) if isinstance(x, (ast.For, ast.AsyncFor, ast.While))]
    inside = [r for lp_ in loops for r in ast.walk(lp_) if isinstance(r, (ast.Return, ast.Break))]
    ctx.check(bool(loops) and not inside, R, "_search:waits-for-every-discoverer", fm, (inside[0] if inside else sf), "the results of all discoverers are collected before returning (no return/break inside the collecting loop)", f"{type(inside[0]).__name__.lower()} inside the loop at line {inside[0].lineno}" if inside else "no loop")
    # every search runs to its own end (three requests, each followed by its interval): no deadline is put on them from outside
    # and none is cancelled - a console that answers only the last request is found in the last interval
    cut = [x for x in ast.walk(sf) if isinstance(x, ast.Call) and ((dotted(x.func) or "") in ("asyncio.wait", "asyncio.wait_for", "asyncio.timeout", "asyncio.timeout_at") or (isinstance(x.func, ast.Attribute) and x.func.attr == "cancel"))]
    ctx.check(not cut, R, "_search:no-deadline-on-the-searches", fm, (cut[0] if cut else sf), "_search neither times the searches out nor cancels one", f"`{norm_text(cut[0])[:70]}`" if cut else "")
    txt = norm_text(sf)
    ok = "at4_discovery.CONFIG" in txt and "at5_discovery.CONFIG" in txt and "remote_host=remote_host" in txt
    ctx.check(ok, R, "_search:both-configs", fm, sf, "both discovery configurations are searched, honouring remote_host", "a configuration is missing")
