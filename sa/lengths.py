"""E6 - symbolic length domain: how many bytes an encoder produces / announces, as a linear form over symbolic terms.

A length is a dict term -> coefficient (the constant under key 1).  Terms:
  ('len', C)            number of elements of collection expression C
  ('utf8', S)           number of UTF-8 bytes of string expression S
  ('chars', S)          number of characters of string expression S   (differs from utf8 for non-ASCII text)
  ('sum', C, inner)     sum over the elements of C of a per-element linear form (inner = sorted tuple of items)
  ('ind', cond)         1 when the per-element / per-message condition holds else 0
  ('call', text)        result of a call the domain does not open (sub-encoder sizes)
  ('mul', a, b)         product of two symbolic terms
The interpreter enumerates the paths of a method (conditions are normalised source text with polarity) and returns
[(conditions, value)].  Loop variables are renamed to '_x' so that size() and encode() can be compared structurally.
"""
from __future__ import annotations

import ast
import copy
from fractions import Fraction
from typing import Optional

from .model import AnalysisError, ClassInfo, Module, Repo, StructVal, dotted, norm_text, unparse


class LenUnsupported(AnalysisError):
    pass


def L(c=0, **kw) -> dict:
    d = {}
    if c:
        d[1] = c
    return d


def l_add(a: dict, b: dict, k=1) -> dict:
    out = dict(a)
    for t, c in b.items():
        out[t] = out.get(t, 0) + k * c
        if out[t] == 0:
            del out[t]
    return out


def l_scale(a: dict, k) -> dict:
    return {t: c * k for t, c in a.items() if c * k != 0}


def l_mul(a: dict, b: dict) -> dict:
    if set(a) <= {1}:
        return l_scale(b, a.get(1, 0))
    if set(b) <= {1}:
        return l_scale(a, b.get(1, 0))
    out = {}
    for ta, ca in a.items():
        for tb, cb in b.items():
            if ta == 1:
                t = tb
            elif tb == 1:
                t = ta
            else:
                t = ("mul",) + tuple(sorted([ta, tb], key=repr))
            out[t] = out.get(t, 0) + ca * cb
    return {t: c for t, c in out.items() if c != 0}


def l_norm(a: dict) -> dict:
    """One spelling for complementary indicators: ind(c) is rewritten as 1 - ind(not c) (also inside products and sums), so that
    `24*ind(c) + 26*ind(not c)` and `24 + 2*ind(not c)` are the same form."""
    out = {}
    for t, c in a.items():
        if isinstance(t, tuple) and t[0] == "ind" and not t[1].startswith("not "):
            out = l_add(out, {1: c, ("ind", "not " + t[1]): -c})
        elif isinstance(t, tuple) and t[0] == "mul" and any(isinstance(x, tuple) and x[0] == "ind" and not x[1].startswith("not ") for x in t[1:]):
            i = next(i for i, x in enumerate(t[1:]) if isinstance(x, tuple) and x[0] == "ind" and not x[1].startswith("not "))
            rest = [x for j, x in enumerate(t[1:]) if j != i]
            other = rest[0] if len(rest) == 1 else ("mul",) + tuple(rest)
            neg = ("mul",) + tuple(sorted([("ind", "not " + t[1 + i][1]), other], key=repr))
            out = l_add(out, l_norm({other: c}))
            out = l_add(out, {neg: -c})
        elif isinstance(t, tuple) and t[0] == "sum":
            inner = l_norm(dict(t[2]))
            const = inner.pop(1, 0)
            if inner:
                out = l_add(out, {("sum", t[1], l_key(inner)): c})
            if const:
                out = l_add(out, {("len", t[1]): c * const})
        else:
            out = l_add(out, {t: c})
    return out


def l_key(a: dict):
    return tuple(sorted(a.items(), key=repr))


def l_fmt(a: dict) -> str:
    if not a:
        return "0"
    parts = []
    for t, c in sorted(a.items(), key=repr):
        if t == 1:
            parts.append(str(c))
        else:
            parts.append((f"{c}*" if c != 1 else "") + t_fmt(t))
    return " + ".join(parts)


def t_fmt(t) -> str:
    if t[0] == "sum":
        return f"sum[{t[1]}]({l_fmt(dict(t[2]))})"
    if t[0] == "mul":
        return "(" + " * ".join(t_fmt(x) for x in t[1:]) + ")"
    return f"{t[0]}({t[1]})"


class Bytes:
    def __init__(self, length: dict):
        self.length = length


class Str:
    def __init__(self, text: str):
        self.text = text


class Coll:
    def __init__(self, text: str):
        self.text = text


class Opaque:
    def __init__(self, text: str):
        self.text = text


class Rec:
    """A dataclass instance built in the analysed code: its fields are known abstract values."""

    def __init__(self, ci, fields: dict):
        self.ci, self.fields = ci, fields


class _Ret(Exception):
    pass


class LenEv:
    def __init__(self, repo: Repo, module: Module, cls: Optional[ClassInfo]):
        self.repo, self.module, self.cls = repo, module, cls
        self.depth = 0

    # ---- expression evaluation ---------------------------------------------------
    def ev(self, e: ast.expr, env: dict):
        if isinstance(e, ast.Constant):
            if isinstance(e.value, bool):
                return Opaque(repr(e.value))
            if isinstance(e.value, int):
                return L(e.value)
            if isinstance(e.value, bytes):
                return Bytes(L(len(e.value)))
            if isinstance(e.value, str):
                return Str(repr(e.value))
            return Opaque(repr(e.value))
        if isinstance(e, ast.Name):
            if e.id in env:
                return env[e.id]
            v = self.repo.try_fold(self.module, e)
            if isinstance(v, int) and not isinstance(v, bool):
                return L(v)
            if isinstance(v, bytes):
                return Bytes(L(len(v)))
            if isinstance(v, str):
                return Str(e.id)
            return Opaque(e.id)
        if isinstance(e, ast.Attribute):
            v = self.repo.try_fold(self.module, e)
            if isinstance(v, int) and not isinstance(v, bool):
                return L(v)
            base = self.ev(e.value, env)
            if isinstance(base, Rec):
                if e.attr in base.fields:
                    return base.fields[e.attr]
                if base.ci.is_property(e.attr):
                    body = [b for b in base.ci.methods[e.attr].body if not (isinstance(b, ast.Expr) and isinstance(b.value, ast.Constant))]
                    if len(body) == 1 and isinstance(body[0], ast.Return) and body[0].value is not None:
                        return LenEv(self.repo, base.ci.module, base.ci).ev(body[0].value, {"self": base})
                raise LenUnsupported(f"attribute {e.attr} of a {base.ci.name} record")
            if isinstance(base, (Opaque, Coll, Str)):
                return Opaque(f"{base.text}.{e.attr}")
            raise LenUnsupported(f"attribute {unparse(e)}")
        if isinstance(e, ast.BinOp):
            a, b = self.ev(e.left, env), self.ev(e.right, env)
            if isinstance(a, dict) and isinstance(b, dict):
                if isinstance(e.op, ast.Add):
                    return l_add(a, b)
                if isinstance(e.op, ast.Sub):
                    return l_add(a, b, -1)
                if isinstance(e.op, ast.Mult):
                    return l_mul(a, b)
            if isinstance(a, Bytes) and isinstance(b, Bytes) and isinstance(e.op, ast.Add):
                return Bytes(l_add(a.length, b.length))
            if isinstance(e.op, ast.Mult) and isinstance(a, Bytes) and isinstance(b, dict):
                return Bytes(l_mul(a.length, b))
            if isinstance(e.op, ast.Add) and isinstance(a, Bytes) and isinstance(b, Opaque) and b.text.startswith("subenc:"):
                return Bytes(l_add(a.length, {("call", b.text): 1}))
            return Opaque(norm_text(e))
        if isinstance(e, ast.Call):
            return self.call(e, env)
        if isinstance(e, (ast.List, ast.Tuple)):
            return Coll(f"[{len(e.elts)} items]") if False else ("seq", len(e.elts))
        if isinstance(e, ast.IfExp):
            a, b = self.ev(e.body, env), self.ev(e.orelse, env)
            wrap = None
            if isinstance(a, Bytes) and isinstance(b, Bytes):
                a, b, wrap = a.length, b.length, Bytes
            if isinstance(a, dict) and isinstance(b, dict):
                if a == b:
                    return wrap(a) if wrap else a
                c = self.cond_text(e.test, env)
                r = l_add(l_mul({("ind", c): 1}, a), l_mul({("ind", _neg(c)): 1}, b))
                return wrap(r) if wrap else r
            return Opaque(norm_text(e))
        if isinstance(e, ast.Subscript):
            base = self.ev(e.value, env)
            if isinstance(base, Bytes) and isinstance(e.slice, ast.Slice) and e.slice.lower is None and e.slice.upper is not None and e.slice.step is None:
                up = self.ev(e.slice.upper, env)
                if isinstance(up, dict):
                    return ("truncated", base, up)
            return Opaque(norm_text(e))
        return Opaque(norm_text(e))

    def text(self, e: ast.expr, env: dict) -> str:
        """Normalised text of an expression with loop variables renamed."""
        e2 = copy.deepcopy(e)
        ren = env.get("__rename__", {})
        for n in ast.walk(e2):
            if isinstance(n, ast.Name) and n.id in ren:
                n.id = ren[n.id]
        return norm_text(e2)

    def call(self, e: ast.Call, env: dict):
        d = dotted(e.func) or ""
        ci = self.repo.resolve_class(self.module, e.func) if d and d not in ("len", "bytes", "bytearray", "int") else None
        if ci is not None and ci.is_dataclass and not ci.is_enum():
            names = [n for n, _, _ in ci.fields]
            fields = {}
            for i, a in enumerate(e.args):
                if i < len(names):
                    fields[names[i]] = self.ev(a, env)
            for k in e.keywords:
                if k.arg:
                    fields[k.arg] = self.ev(k.value, env)
            return Rec(ci, fields)
        if d == "len" and len(e.args) == 1:
            v = self.ev(e.args[0], env)
            if isinstance(v, Bytes):
                return v.length
            if isinstance(v, Str):
                return {("chars", v.text): 1}
            if isinstance(v, (Coll, Opaque)):
                return {("len", v.text): 1}
            if isinstance(v, tuple) and v[0] == "seq":
                return L(v[1])
            raise LenUnsupported(f"len of {unparse(e.args[0])[:40]}")
        if d in ("bytes", "bytearray"):
            if not e.args:
                return Bytes(L(0))
            v = self.ev(e.args[0], env)
            if isinstance(v, tuple) and v[0] == "seq":
                return Bytes(L(v[1]))
            if isinstance(v, dict):
                return Bytes(v)  # bytearray(n): n zero bytes
            if isinstance(v, Str) or (isinstance(v, Opaque) and any(k.arg == "encoding" for k in e.keywords)):
                return Bytes({("utf8", v.text): 1})
            if isinstance(v, Bytes):
                return v
            raise LenUnsupported(f"bytes() of {unparse(e.args[0])[:40]}")
        if isinstance(e.func, ast.Attribute):
            attr = e.func.attr
            if attr == "encode" and (not e.args or True) and any(k.arg == "encoding" for k in e.keywords) or (attr == "encode" and not e.args and not e.keywords):
                base = self.ev(e.func.value, env)
                if isinstance(base, (Str, Opaque)):
                    return Bytes({("utf8", self.text(e.func.value, env) if not isinstance(base, Str) or True else base.text): 1})
            if attr == "join" and len(e.args) == 1 and isinstance(e.args[0], (ast.GeneratorExp, ast.ListComp)) and len(e.args[0].generators) == 1 and not e.args[0].generators[0].ifs and isinstance(e.args[0].generators[0].target, ast.Name):
                sep = self.ev(e.func.value, env)
                if isinstance(sep, Bytes) and not sep.length:
                    # b"".join(f(x) for x in coll): the per-element lengths add up
                    g = e.args[0].generators[0]
                    coll = self.ev(g.iter, env)
                    if isinstance(coll, (Coll, Opaque)):
                        env2 = dict(env)
                        env2[g.target.id] = Str("_x")
                        ren = dict(env.get("__rename__", {}))
                        ren[g.target.id] = "_x"
                        env2["__rename__"] = ren
                        inner = self.ev(e.args[0].elt, env2)
                        if isinstance(inner, Bytes):
                            return Bytes(self.sum_over(coll.text, inner.length))
                    raise LenUnsupported("bytes join over something that is not a per-element byte string")
            if attr == "join":
                return Str(self.text(e, env))
            st = self.repo.try_fold(self.module, e.func.value)
            if isinstance(st, StructVal) and attr == "pack":
                return Bytes(L(st.size))
            if attr in ("values", "items", "keys"):
                base = self.ev(e.func.value, env)
                if isinstance(base, (Opaque, Coll)):
                    return Coll(self.text(e.func.value, env))
        # encoding.encode_c_string(value, N) -> N bytes (pads with NUL, then truncates)
        q = self.repo.qual(self.module, e.func) if d else None
        if q == "pyairtouch.comms.encoding.encode_c_string" and len(e.args) == 2:
            n = self.ev(e.args[1], env)
            if isinstance(n, dict):
                return Bytes(n)
        if d == "sum" and 1 <= len(e.args) <= 2 and isinstance(e.args[0], (ast.GeneratorExp, ast.ListComp)) and len(e.args[0].generators) == 1 and isinstance(e.args[0].generators[0].target, ast.Name):
            g = e.args[0].generators[0]
            coll = self.ev(g.iter, env)
            init = self.ev(e.args[1], env) if len(e.args) == 2 else {}
            if isinstance(coll, (Coll, Opaque)) and isinstance(init, dict):
                env2 = dict(env)
                env2[g.target.id] = Str("_x")
                ren = dict(env.get("__rename__", {}))
                ren[g.target.id] = "_x"
                env2["__rename__"] = ren
                inner = self.ev(e.args[0].elt, env2)
                if isinstance(inner, dict):
                    # `sum(f(x) for x in C if c(x))` counts f(x) for the elements that satisfy every filter: f(x) * ind(c(x))
                    for cnd in g.ifs:
                        inner = l_mul({("ind", self.cond_text(cnd, env2)): 1}, inner)
                    return l_add(init, self.sum_over(coll.text, inner))
            raise LenUnsupported("sum() over something that is not a per-element linear form")
        if d == "reduce" and len(e.args) == 3 and isinstance(e.args[0], ast.Lambda):
            lam = e.args[0]
            acc, item = [a.arg for a in lam.args.args]
            coll = self.ev(e.args[1], env)
            init = self.ev(e.args[2], env)
            if not isinstance(coll, (Coll, Opaque)) or not isinstance(init, dict):
                raise LenUnsupported("reduce over a non-collection")
            env2 = dict(env)
            env2[acc] = {("__acc__", ""): 1}
            env2[item] = Str("_x")
            ren = dict(env.get("__rename__", {}))
            ren[item] = "_x"
            env2["__rename__"] = ren
            body = self.ev(lam.body, env2)
            if not isinstance(body, dict) or body.get(("__acc__", "")) != 1:
                raise LenUnsupported("reduce lambda is not acc + f(item)")
            inner = {t: c for t, c in body.items() if t != ("__acc__", "")}
            return l_add(init, self.sum_over(coll.text, inner))
        # self.method(...) of the same class: open it
        if d.startswith("self.") and d.count(".") == 1 and self.cls is not None:
            found = self.repo.find_method(self.cls, d.split(".")[1])
            if found and self.depth < 4:
                try:
                    paths = self._open(found, e, env)
                except LenUnsupported:
                    return Opaque(self.text(e, env))
                cur = getattr(self, "cur_conds", ())
                comp = [p for p in paths if compatible(p[0], cur)]
                if len(comp) == 1:
                    return comp[0][1]
                return Opaque(self.text(e, env))
        if isinstance(e.func, ast.Attribute) and e.func.attr == "encode" and len(e.args) == 2 and not e.keywords:
            return Opaque("subenc:" + self.text(e.func.value, env))
        return {("call", self.text(e, env)): 1} if self._int_like(e) else Opaque(self.text(e, env))

    def _open(self, found, e, env):
        return LenEv(self.repo, found[0].module, found[0]).method_paths(found[1], [self.ev(a, env) for a in e.args], depth=self.depth + 1)

    def _int_like(self, e: ast.Call) -> bool:
        d = dotted(e.func) or ""
        return d.split(".")[-1] in ("size", "non_repeat_size", "repeat_count", "repeat_size")

    def sum_over(self, coll_text: str, inner: dict) -> dict:
        if not inner:
            return {}
        if set(inner) <= {1}:
            return {("len", coll_text): inner[1]}
        const = inner.get(1, 0)
        rest = {t: c for t, c in inner.items() if t != 1}
        out = {("sum", coll_text, l_key(rest)): 1}
        if const:
            out[("len", coll_text)] = const
        return out

    # ---- statements ------------------------------------------------------------------
    def method_paths(self, fn, args: Optional[list] = None, depth: int = 0):
        """[(conds, value)] for every return path of the method."""
        self.depth = depth
        env = {"__rename__": {}}
        params = [a.arg for a in fn.args.args if a.arg != "self"]
        for i, p in enumerate(params):
            env[p] = args[i] if args and i < len(args) and args[i] is not None else Opaque(p)
        outs = []
        rest = self.run_states(fn.body, [(env, ())], outs)
        for e, c in rest:
            outs.append((c, None))
        return outs

    def cond_text(self, t: ast.expr, env) -> str:
        """Canonical text of a condition: negative comparison operators and `not` become a leading "not " on the positive form, so
        that `a is not None`, `not a is None` and the else-arm of `a is None` are one and the same condition."""
        neg = False
        t = copy.deepcopy(t)
        while True:
            if isinstance(t, ast.UnaryOp) and isinstance(t.op, ast.Not):
                neg, t = not neg, t.operand
                continue
            if isinstance(t, ast.Compare) and len(t.ops) == 1 and type(t.ops[0]) in _POS:
                t.ops = [_POS[type(t.ops[0])]()]
                neg = not neg
                continue
            break
        c = self.text(t, env)
        return _neg(c) if neg else c

    def run(self, stmts, env, conds, outs) -> bool:
        """Compatibility wrapper: executes stmts from one state; True when some path falls through (env is updated only
        when exactly one state falls through)."""
        states = self.run_states(stmts, [(env, conds)], outs)
        if len(states) == 1:
            if states[0][0] is not env:
                env.clear(); env.update(states[0][0])
            return True
        if not states:
            return False
        raise LenUnsupported("diverging paths inside a loop body")

    def run_states(self, stmts, states, outs):
        """Execute stmts from every state (env, conds); returns the states that fall through."""
        for s in stmts:
            nxt = []
            for env, conds in states:
                nxt += self.step(s, env, conds, outs)
            states = self._join(nxt)
            if not states:
                break
        return states

    def _join(self, states):
        out = []
        for env, conds in states:
            for e2, c2 in out:
                if c2 == conds and self._same_env(env, e2):
                    break
            else:
                out.append((env, conds))
        return out

    def step(self, s, env, conds, outs):
        self.cur_conds = conds
        if isinstance(s, ast.Expr):
            if not isinstance(s.value, ast.Constant):
                self.effect(s.value, env)
            return [(env, conds)]
        if isinstance(s, ast.Return):
            v = s.value
            if isinstance(v, ast.IfExp):
                c = self.cond_text(v.test, env)
                outs.append((conds + (c,), self.ev(v.body, env)))
                outs.append((conds + (_neg(c),), self.ev(v.orelse, env)))
            else:
                outs.append((conds, self.ev(v, env) if v is not None else None))
            return []
        if isinstance(s, ast.Raise):
            outs.append((conds, ("raise", norm_text(s))))
            return []
        if isinstance(s, (ast.Assign, ast.AnnAssign)):
            tg = s.targets[0] if isinstance(s, ast.Assign) else s.target
            if s.value is not None:
                if isinstance(tg, ast.Name):
                    env[tg.id] = self.ev(s.value, env)
                elif isinstance(tg, ast.Tuple):
                    for t in tg.elts:
                        if isinstance(t, ast.Name):
                            env[t.id] = Opaque(t.id)
            return [(env, conds)]
        if isinstance(s, ast.AugAssign) and isinstance(s.target, ast.Name):
            cur, v = env.get(s.target.id), self.ev(s.value, env)
            if isinstance(s.op, ast.Add) and isinstance(cur, dict) and isinstance(v, dict):
                env[s.target.id] = l_add(cur, v)
            elif isinstance(s.op, ast.Add) and isinstance(cur, Bytes) and isinstance(v, Bytes):
                env[s.target.id] = Bytes(l_add(cur.length, v.length))
            elif isinstance(cur, dict) and not isinstance(v, Bytes):
                env[s.target.id] = Opaque(s.target.id)  # an integer accumulated from values outside the domain: unknown number, not a length
            elif isinstance(cur, (dict, Bytes)):
                raise LenUnsupported(f"augmented assignment {norm_text(s)[:50]}")
            else:
                env[s.target.id] = Opaque(s.target.id)
            return [(env, conds)]
        if isinstance(s, ast.If):
            c = self.cond_text(s.test, env)
            a = self.run_states(s.body, [(dict(env), conds + (c,))], outs)
            b = self.run_states(s.orelse, [(dict(env), conds + (_neg(c),))], outs)
            # arms that leave identical environments re-join without the condition
            if len(a) == 1 and len(b) == 1 and self._same_env(a[0][0], b[0][0]):
                return [(a[0][0], conds)]
            return a + b
        if isinstance(s, ast.Match):
            res = []
            rem = conds
            for case in s.cases:
                p = case.pattern
                if isinstance(p, ast.MatchClass):
                    c = f"isinstance({self.text(s.subject, env)}, {norm_text(p.cls).split('.')[-1]})"
                    res += self.run_states(case.body, [(dict(env), rem + (c,))], outs)
                    rem = rem + (_neg(c),)
                elif isinstance(p, ast.MatchAs) and p.pattern is None:
                    res += self.run_states(case.body, [(dict(env), rem)], outs)
                    rem = None
                    break
                else:
                    raise LenUnsupported("match pattern")
            if rem is not None:
                res.append((dict(env), rem))
            if res and all(self._same_env(res[0][0], e) for e, _ in res[1:]):
                return [(res[0][0], conds)]
            return res
        if isinstance(s, ast.For):
            self.loop(s, env)
            return [(env, conds)]
        if isinstance(s, ast.Pass):
            return [(env, conds)]
        raise LenUnsupported(f"statement {type(s).__name__}: {norm_text(s)[:60]}")

    def _same_env(self, a, b) -> bool:
        for k in set(a) | set(b):
            if k == "__rename__":
                continue
            x, y = a.get(k), b.get(k)
            if isinstance(x, dict) and isinstance(y, dict):
                if x != y:
                    return False
            elif isinstance(x, Bytes) and isinstance(y, Bytes):
                if x.length != y.length:
                    return False
        return True

    def effect(self, e: ast.expr, env):
        if isinstance(e, ast.Call) and isinstance(e.func, ast.Attribute) and isinstance(e.func.value, ast.Name):
            tgt = env.get(e.func.value.id)
            if isinstance(tgt, Bytes):
                if e.func.attr == "append":
                    env[e.func.value.id] = Bytes(l_add(tgt.length, L(1)))
                elif e.func.attr == "extend":
                    v = self.ev(e.args[0], env)
                    if isinstance(v, tuple) and v[0] == "truncated":
                        v = Bytes(v[2])
                    if not isinstance(v, Bytes):
                        raise LenUnsupported(f"extend with {unparse(e.args[0])[:40]}")
                    env[e.func.value.id] = Bytes(l_add(tgt.length, v.length))
                elif e.func.attr in ("debug", "info", "warning"):
                    pass
                else:
                    raise LenUnsupported(f"buffer method {e.func.attr}")

    def loop(self, s: ast.For, env):
        """for x in coll: body   -- accumulators changed in the body get  sum over coll of the per-iteration change."""
        coll = self.ev(s.iter, env)
        if isinstance(coll, Opaque):
            coll = Coll(self.text(s.iter, env))
        if not isinstance(coll, Coll):
            raise LenUnsupported(f"loop over {unparse(s.iter)[:40]}")
        env2 = dict(env)
        ren = dict(env.get("__rename__", {}))
        names = [n.id for n in ast.walk(s.target) if isinstance(n, ast.Name)]
        is_items = isinstance(s.iter, ast.Call) and isinstance(s.iter.func, ast.Attribute) and s.iter.func.attr == "items" and len(names) == 2
        for i, nm in enumerate(names):
            ren[nm] = "_x" if len(names) == 1 else (("_k", "_x")[i] if is_items else f"_x{i}")
            env2[nm] = Opaque(ren[nm])
        env2["__rename__"] = ren
        # mark accumulators
        base = {}
        for k, v in env.items():
            if k == "__rename__":
                continue
            if isinstance(v, dict):
                base[k] = v
                env2[k] = {}
            elif isinstance(v, Bytes):
                base[k] = v
                env2[k] = Bytes({})
        delta = self.body_delta(s.body, env2)
        for k, d in delta.items():
            total = self.sum_over(coll.text, d)
            if isinstance(base[k], dict):
                env[k] = l_add(base[k], total)
            else:
                env[k] = Bytes(l_add(base[k].length, total))

    def body_delta(self, stmts, env) -> dict:
        """Per-iteration change of the accumulators; conditionals contribute indicator terms."""
        delta = {}
        before = {k: (v if isinstance(v, dict) else v.length) for k, v in env.items() if isinstance(v, (dict, Bytes)) and k != "__rename__"}
        for s in stmts:
            if isinstance(s, ast.If):
                c = self.cond_text(s.test, env)
                e1 = dict(env)
                for k, v in list(e1.items()):
                    if isinstance(v, dict) and k in before:
                        e1[k] = {}
                    elif isinstance(v, Bytes) and k in before:
                        e1[k] = Bytes({})
                e2 = dict(e1)  # the else-arm starts from the same state as the then-arm
                d1 = self.body_delta(s.body, e1)
                d2 = self.body_delta(s.orelse, e2) if s.orelse else {}
                # a name bound in both arms (e.g. a per-record size chosen by the test) continues with the guarded combination
                for k in (set(e1) & set(e2)) - set(env):
                    a, b = e1[k], e2[k]
                    if isinstance(a, dict) and isinstance(b, dict):
                        env[k] = a if a == b else l_add(l_mul({("ind", c): 1}, a), l_mul({("ind", _neg(c)): 1}, b))
                    else:
                        env[k] = Opaque(k)
                for k in set(d1) | set(d2):
                    a, b = d1.get(k, {}), d2.get(k, {})
                    if a == b:
                        add = a
                    else:
                        add = l_add(l_mul({("ind", c): 1}, a), l_mul({("ind", _neg(c)): 1}, b))
                    cur = env[k] if isinstance(env[k], dict) else env[k].length
                    new = l_add(cur, add)
                    env[k] = new if isinstance(env[k], dict) else Bytes(new)
                continue
            if isinstance(s, (ast.For,)):
                self.loop(s, env)
                continue
            outs = []
            fall = self.run([s], env, (), outs)
            if outs or not fall:
                raise LenUnsupported("return inside a loop body")
        for k, b in before.items():
            v = env.get(k)
            cur = v if isinstance(v, dict) else v.length if isinstance(v, Bytes) else None
            if cur is not None and cur != b:
                delta[k] = l_add(cur, b, -1)
        return delta


def result_length(v):
    """Length (linear form) of a path's return value, or None."""
    if isinstance(v, Bytes):
        return v.length
    if isinstance(v, dict):
        return v
    if isinstance(v, tuple) and v and v[0] == "truncated":
        return v[2]
    return None


_POS = {ast.IsNot: ast.Is, ast.NotEq: ast.Eq, ast.NotIn: ast.In}


def _neg(c: str) -> str:
    return c[4:] if c.startswith("not ") else "not " + c


def compatible(c1: tuple, c2: tuple) -> bool:
    s1, s2 = set(c1), set(c2)
    for c in s1:
        neg = _neg(c)
        if neg in s2:
            return False
    return True
