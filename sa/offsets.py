"""E10 - buffer-offset domain for the variable-length (string) decoders.

Values are *positions in the decoder's input buffer*, not bytes: a linear form over the symbols ML (header.message_length), k (the
iteration index of a loop), p (the position at the head of an iteration when the stride depends on the data), byte values
`b@<position>` of the buffer, and floor-division / remainder symbols.  A view of the buffer is a pair (lo, hi) of such forms, so that
`buffer = buffer[9:]` inside a loop and `offset += 9` describe the same thing: the position advances by 9.  A loop is summarised
from one symbolic pass over its body (positions carried from one iteration to the next become symbols; their new value minus the
symbol is the stride).  The result of analysing a decode() method is the list of its exits - each with its path conditions, the value
returned and the dictionary stores made on the way - in a form that does not depend on how the arithmetic is spelled.

Nothing here executes repository code; every construct outside the small language below is an `Unsupported` (-> ANALYSIS-ERROR).
"""
from __future__ import annotations

import ast
from dataclasses import dataclass, field
from fractions import Fraction
from typing import Any, Optional

from .model import AnalysisError, Module, Repo, dotted, norm_text


class Unsupported(Exception):
    pass


# ------------------------------------------------------------------------------------------------ linear forms
def lc(v) -> dict:
    return {"": Fraction(v)} if v else {}


def ls(sym: str) -> dict:
    return {sym: Fraction(1)}


def ladd(a: dict, b: dict, sign: int = 1) -> dict:
    out = dict(a)
    for k, c in b.items():
        out[k] = out.get(k, 0) + sign * c
    return {k: c for k, c in out.items() if c}


def lscale(a: dict, f) -> dict:
    return {k: c * f for k, c in a.items() if c * f}


def lmul(a: dict, b: dict) -> dict:
    """product of two forms; a product of symbols is the symbol `x*y` (factors sorted)"""
    out = {}
    for ka, ca in a.items():
        for kb, cb in b.items():
            k = "*".join(sorted([f for f in (ka.split("*") if ka and "(" not in ka else [ka]) + (kb.split("*") if kb and "(" not in kb else [kb]) if f]))
            out[k] = out.get(k, 0) + ca * cb
    return {k: c for k, c in out.items() if c}


def lconst(a: dict):
    """the integer value of a constant form, else None"""
    if all(k == "" for k in a):
        c = a.get("", Fraction(0))
        return int(c) if c.denominator == 1 else None
    return None


def lfmt(a: dict) -> str:
    if not a:
        return "0"
    parts = []
    for k in sorted(a, key=lambda s: (s == "", s)):
        c = a[k]
        cs = str(c.numerator) if c.denominator == 1 else str(c)
        if k == "":
            parts.append(cs)
        elif c == 1:
            parts.append(k)
        else:
            parts.append(f"{cs}*{k}")
    return " + ".join(parts).replace("+ -", "- ")


def L(*terms) -> dict:
    """L(3, 'k', (9, 'k')) -> 3 + k + 9k"""
    out = {}
    for t in terms:
        if isinstance(t, (int, Fraction)):
            out = ladd(out, lc(t))
        elif isinstance(t, str):
            out = ladd(out, ls(t))
        elif isinstance(t, tuple):
            out = ladd(out, lscale(ls(t[1]), Fraction(t[0])))
        else:
            out = ladd(out, t)
    return out


def byte_at(pos: dict) -> str:
    return f"b@({lfmt(pos)})"


# ------------------------------------------------------------------------------------------------ values
@dataclass
class Lin:
    l: dict

    def __repr__(self):
        return lfmt(self.l)


@dataclass
class Bf:
    lo: dict
    hi: Optional[dict]  # None: to the end of the buffer

    def __repr__(self):
        return f"buffer[{lfmt(self.lo)}:{lfmt(self.hi) if self.hi is not None else ''}]"


@dataclass
class Str:
    kind: str  # 'utf8' | 'cstr'
    lo: dict
    hi: Optional[dict]

    def __repr__(self):
        return f"{self.kind}(buffer[{lfmt(self.lo)}:{lfmt(self.hi) if self.hi is not None else ''}])"


@dataclass
class Split:
    s: Any
    sep: Any

    def __repr__(self):
        return f"{self.s!r}.split({self.sep!r})"


@dataclass
class Cst:
    v: Any

    def __repr__(self):
        return repr(self.v)


@dataclass
class Cond:
    c: tuple  # ('lt0'|'eq0'|'ne0', fmt) | ('true',) | ('false',) | ('and'|'or', ...) | ('opaque', text)

    def __repr__(self):
        return cfmt(self.c)


@dataclass
class Obj:
    cls: str
    fields: dict

    def __repr__(self):
        return f"{self.cls}({', '.join(f'{k}={v!r}' for k, v in self.fields.items())})"


@dataclass
class Acc:
    """a dict / list built by the function; stores are recorded as emissions on the path"""
    name: str

    def __repr__(self):
        return f"<{self.name}>"


@dataclass
class Tup:
    items: list


@dataclass
class Rng:
    """a range object: start, step, number of elements (forms)"""
    start: dict
    step: dict
    count: dict


@dataclass
class Opaque:
    text: str

    def __repr__(self):
        return f"?{self.text}"


@dataclass
class Ite:
    c: tuple
    a: Any
    b: Any

    def __repr__(self):
        return f"({self.a!r} if {cfmt(self.c)} else {self.b!r})"


@dataclass
class Loop:
    """summary of one loop: emissions / raises of one iteration in terms of k (constant stride) or p (data-dependent stride)"""
    kind: str  # 'for' | 'while'
    count: Optional[dict]  # for-loops: number of iterations
    head: Optional[tuple]  # while-loops: canonical condition at the head of an iteration
    init: dict  # {symbol: initial position} for data-dependent positions
    stride: dict  # {symbol: stride form}
    emits: list  # [(acc name, key value, value value)]
    raises: list  # [tuple of conds]

    def __repr__(self):
        return f"Loop({self.kind} count={lfmt(self.count) if self.count is not None else None} head={cfmt(self.head) if self.head else None} init={ {k: lfmt(v) for k, v in self.init.items()} } stride={ {k: lfmt(v) for k, v in self.stride.items()} } emits={self.emits} raises={[[cfmt(c) for c in r] for r in self.raises]})"


TRUE, FALSE = ("true",), ("false",)


def cfmt(c) -> str:
    if c[0] in ("lt0", "eq0", "ne0"):
        return {"lt0": "{} < 0", "eq0": "{} == 0", "ne0": "{} != 0"}[c[0]].format(c[1])
    if c[0] in ("and", "or"):
        return "(" + f" {c[0]} ".join(cfmt(x) for x in c[1:]) + ")"
    if c[0] == "opaque":
        return f"?{c[1]}"
    if c[0] == "not":
        return f"not {cfmt(c[1])}"
    return c[0]


def _is_byte(sym: str) -> bool:
    return sym.startswith("b@(")


def mk_cmp(op: str, a: dict, b: dict):
    """canonical condition for `a op b` over integers"""
    d = ladd(a, b, -1)
    if op in (">", ">="):
        d = lscale(d, -1)
        op = "<" if op == ">" else "<="
    if op == "<=":
        d, op = ladd(d, lc(-1)), "<"  # x <= 0  <=>  x - 1 < 0
    if op == "<":
        k = lconst(d)
        if k is not None:
            return TRUE if k < 0 else FALSE
        syms = [s for s in d if s]
        if len(syms) == 1 and _is_byte(syms[0]):
            # a byte is 0..255:  -b < 0 <=> b != 0 ;  b - 1 < 0 <=> b == 0
            if d.get(syms[0]) == -1 and d.get("", 0) == 0:
                return ("ne0", lfmt(ls(syms[0])))
            if d.get(syms[0]) == 1 and d.get("", 0) == -1:
                return ("eq0", lfmt(ls(syms[0])))
        return ("lt0", lfmt(d))
    k = lconst(d)
    if k is not None:
        r = (k == 0) if op == "==" else (k != 0)
        return TRUE if r else FALSE
    # sign normalisation: first symbol's coefficient positive
    first = sorted(s for s in d if s)[0]
    if d[first] < 0:
        d = lscale(d, -1)
    return ("eq0" if op == "==" else "ne0", lfmt(d))


def cneg(c):
    if c == TRUE:
        return FALSE
    if c == FALSE:
        return TRUE
    if c[0] == "eq0":
        return ("ne0", c[1])
    if c[0] == "ne0":
        return ("eq0", c[1])
    if c[0] == "lt0":
        # integers: not (X < 0)  <=>  -X - 1 < 0
        return mk_cmp("<", ladd(lscale(parse_l(c[1]), -1), lc(-1)), {})
    if c[0] == "and":
        return ("or",) + tuple(cneg(x) for x in c[1:])
    if c[0] == "or":
        return ("and",) + tuple(cneg(x) for x in c[1:])
    if c[0] == "not":
        return c[1]
    return ("not", c)


@dataclass
class Exit:
    kind: str  # 'return' | 'raise'
    conds: list
    value: Any
    emits: list  # [(acc, key, value)] and Loop summaries, in order
    line: int = 0


# ------------------------------------------------------------------------------------------------ evaluator
class Offsets:
    def __init__(self, repo: Repo, module: Module, fn: ast.FunctionDef, buf: str, hdr: str, cls=None):
        self.repo, self.module, self.fn, self.buf, self.hdr, self.cls = repo, module, fn, buf, hdr, cls
        self.depth = 0
        self.exits: list[Exit] = []
        self.nacc = 0
        self.lt_facts: list = []

    # ---- expressions -----------------------------------------------------------------------------
    def const(self, e):
        v = self.repo.try_fold(self.module, e, default=_NO)
        return v

    def lift(self, v):
        if isinstance(v, bool):
            return Cond(TRUE if v else FALSE)
        if isinstance(v, int):
            return Lin(lc(v))
        return Cst(v)

    def ev(self, e, env):
        if isinstance(e, ast.Constant):
            return self.lift(e.value)
        if isinstance(e, ast.Name):
            if e.id in env:
                return env[e.id]
            v = self.const(e)
            if v is not _NO:
                return self.lift(v)
            raise Unsupported(f"unknown name {e.id}")
        if isinstance(e, ast.Attribute):
            if isinstance(e.value, ast.Name) and e.value.id == self.hdr and e.value.id not in env.get("__shadow__", ()):
                return Lin(ls({"message_length": "ML", "repeat_length": "RL", "repeat_count": "RC", "non_repeat_length": "NRL"}.get(e.attr, f"H.{e.attr}")))
            v = self.const(e)
            if v is not _NO:
                return self.lift(v)
            return Opaque(norm_text(e))
        if isinstance(e, ast.Tuple):
            return Tup([self.ev(x, env) for x in e.elts])
        if isinstance(e, ast.BinOp):
            a, b = self.ev(e.left, env), self.ev(e.right, env)
            if isinstance(a, Lin) and isinstance(b, Lin):
                ka, kb = lconst(a.l), lconst(b.l)
                if isinstance(e.op, ast.Add):
                    return Lin(ladd(a.l, b.l))
                if isinstance(e.op, ast.Sub):
                    return Lin(ladd(a.l, b.l, -1))
                if isinstance(e.op, ast.Mult):
                    return Lin(lmul(a.l, b.l))
                if isinstance(e.op, (ast.FloorDiv, ast.Mod)) and kb is not None and kb > 0:
                    if ka is not None:
                        return Lin(lc(ka // kb if isinstance(e.op, ast.FloorDiv) else ka % kb))
                    name = ("fd" if isinstance(e.op, ast.FloorDiv) else "mod") + f"({lfmt(a.l)},{kb})"
                    return Lin(ls(name))
            return Opaque(norm_text(e))
        if isinstance(e, ast.UnaryOp):
            v = self.ev(e.operand, env)
            if isinstance(e.op, ast.Not):
                return Cond(cneg(self.cond(v)))
            if isinstance(e.op, ast.USub) and isinstance(v, Lin):
                return Lin(lscale(v.l, -1))
            return Opaque(norm_text(e))
        if isinstance(e, ast.Compare):
            if len(e.ops) != 1:
                return Cond(("opaque", norm_text(e)))
            a, b = self.ev(e.left, env), self.ev(e.comparators[0], env)
            op = {ast.Lt: "<", ast.LtE: "<=", ast.Gt: ">", ast.GtE: ">=", ast.Eq: "==", ast.NotEq: "!="}.get(type(e.ops[0]))
            if op and isinstance(a, Lin) and isinstance(b, Lin):
                return Cond(mk_cmp(op, a.l, b.l))
            if isinstance(e.ops[0], (ast.Is, ast.IsNot)) and isinstance(b, Cst) and b.v is None:
                r = isinstance(a, Cst) and a.v is None
                if isinstance(a, (Lin, Bf, Str, Obj, Acc)) or isinstance(a, Cst):
                    return Cond(TRUE if r == isinstance(e.ops[0], ast.Is) else FALSE)
            return Cond(("opaque", norm_text(e)))
        if isinstance(e, ast.BoolOp):
            cs = [self.cond(self.ev(v, env)) for v in e.values]
            op = "and" if isinstance(e.op, ast.And) else "or"
            cs2 = []
            for c in cs:
                if (op == "and" and c == TRUE) or (op == "or" and c == FALSE):
                    continue
                if (op == "and" and c == FALSE) or (op == "or" and c == TRUE):
                    return Cond(c)
                cs2.append(c)
            if not cs2:
                return Cond(TRUE if op == "and" else FALSE)
            return Cond(cs2[0] if len(cs2) == 1 else (op,) + tuple(cs2))
        if isinstance(e, ast.Subscript):
            base = self.ev(e.value, env)
            if isinstance(base, Bf):
                if isinstance(e.slice, ast.Slice):
                    if e.slice.step is not None:
                        return Opaque(norm_text(e))
                    lo = self.ev(e.slice.lower, env) if e.slice.lower is not None else Lin({})
                    up = self.ev(e.slice.upper, env) if e.slice.upper is not None else None
                    if not isinstance(lo, Lin) or (up is not None and not isinstance(up, Lin)):
                        return Opaque(norm_text(e))
                    if self._maybe_negative(lo.l) or (up is not None and self._maybe_negative(up.l)):
                        return Opaque(norm_text(e))
                    nlo = ladd(base.lo, lo.l)
                    nhi = ladd(base.lo, up.l) if up is not None else None
                    if base.hi is not None:
                        if nhi is None:
                            nhi = base.hi
                        elif nhi != base.hi:
                            d = lconst(ladd(base.hi, nhi, -1))
                            if d is None:
                                return Opaque(f"min-bounded slice {norm_text(e)}")
                            nhi = nhi if d >= 0 else base.hi
                    return Bf(nlo, nhi)
                idx = self.ev(e.slice, env)
                if isinstance(idx, Lin) and not self._maybe_negative(idx.l):
                    return Lin(ls(byte_at(ladd(base.lo, idx.l))))
                return Opaque(norm_text(e))
            if isinstance(base, Tup):
                idx = self.ev(e.slice, env) if not isinstance(e.slice, ast.Slice) else None
                k = lconst(idx.l) if isinstance(idx, Lin) else None
                if k is not None and -len(base.items) <= k < len(base.items):
                    return base.items[k]
            return Opaque(norm_text(e))
        if isinstance(e, ast.Call):
            return self.call(e, env)
        if isinstance(e, ast.Dict) and not e.keys:
            self.nacc += 1
            return Acc(f"dict#{self.nacc}")
        if isinstance(e, ast.List) and not e.elts:
            self.nacc += 1
            return Acc(f"list#{self.nacc}")
        if isinstance(e, (ast.ListComp, ast.GeneratorExp)) and len(e.generators) == 1 and not e.generators[0].ifs:
            g = e.generators[0]
            ib = self._iter_bind(g.target, g.iter, env)
            if ib is not None:
                self.nacc += 1
                acc = Acc(f"list#{self.nacc}")
                env2 = dict(env)
                env2["__pending__"] = []
                env2.update(ib[0])
                val = self.ev(e.elt, env2)
                env.setdefault("__pending__", []).append(Loop("for", ib[1], None, {}, {}, list(env2["__pending__"]) + [(acc.name, None, val)], []))
                return acc
            return Opaque(norm_text(e)[:80])
        if isinstance(e, ast.DictComp) and len(e.generators) == 1 and not e.generators[0].ifs and isinstance(e.generators[0].target, ast.Name):
            g = e.generators[0]
            it = g.iter
            if isinstance(it, ast.Call) and dotted(it.func) == "range" and len(it.args) == 1:
                n = self.ev(it.args[0], env)
                if isinstance(n, Lin):
                    self.nacc += 1
                    acc = Acc(f"dict#{self.nacc}")
                    env2 = dict(env)
                    env2[g.target.id] = Lin(ls("k"))
                    env.setdefault("__pending__", []).append(Loop("for", n.l, None, {}, {}, [(acc.name, self.ev(e.key, env2), self.ev(e.value, env2))], []))
                    return acc
            return Opaque(norm_text(e)[:80])
        if isinstance(e, ast.IfExp):
            c = self.cond(self.ev(e.test, env))
            if c == TRUE:
                return self.ev(e.body, env)
            if c == FALSE:
                return self.ev(e.orelse, env)
            a, b = self.ev(e.body, env), self.ev(e.orelse, env)
            if repr(a) == repr(b):
                return a
            return Ite(c, a, b)
        if isinstance(e, ast.JoinedStr):
            return Opaque("<fstring>")
        return Opaque(norm_text(e)[:80])

    def _range(self, it, env):
        """(start, step, count) forms of `range(...)` with 1-3 arguments (step must be positive: constant or a header symbol)"""
        if isinstance(it, ast.Name) and isinstance(env.get(it.id), Rng):
            r = env[it.id]
            return r.start, r.step, r.count
        if not (isinstance(it, ast.Call) and dotted(it.func) == "range" and 1 <= len(it.args) <= 3 and not it.keywords):
            return None
        vs = [self.ev(a, env) for a in it.args]
        if not all(isinstance(v, Lin) for v in vs):
            return None
        if len(vs) == 1:
            return {}, lc(1), vs[0].l
        if len(vs) == 2:
            return vs[0].l, lc(1), ladd(vs[1].l, vs[0].l, -1)
        span = ladd(vs[1].l, vs[0].l, -1)
        k = lconst(vs[2].l)
        if k is not None:
            if k <= 0:
                return None
            ks = lconst(span)
            cnt = lc(-(-ks // k)) if ks is not None else ls(f"cd({lfmt(span)},{k})")
            return vs[0].l, vs[2].l, cnt
        return vs[0].l, vs[2].l, ls(f"cdv({lfmt(span)};{lfmt(vs[2].l)})")

    def _iter_bind(self, tgt, it, env):
        """({name: Lin}, count) for `for <tgt> in <it>` over range(...) / a range held in a local / enumerate(of those), else None"""
        idx = None
        if isinstance(it, ast.Call) and dotted(it.func) == "enumerate" and 1 <= len(it.args) <= 2 and isinstance(tgt, ast.Tuple) and len(tgt.elts) == 2 and all(isinstance(x, ast.Name) for x in tgt.elts):
            first = self.ev(it.args[1], env) if len(it.args) == 2 else next((self.ev(k.value, env) for k in it.keywords if k.arg == "start"), Lin({}))
            if not isinstance(first, Lin):
                return None
            idx, it, tgt = (tgt.elts[0].id, first.l), it.args[0], tgt.elts[1]
        rng = self._range(it, env) if isinstance(tgt, ast.Name) else None
        if rng is None:
            return None
        out = {tgt.id: Lin(ladd(rng[0], lmul(rng[1], ls("k"))))}
        if idx is not None:
            out[idx[0]] = Lin(ladd(idx[1], ls("k")))
        return out, rng[2]

    def _maybe_negative(self, l: dict) -> bool:
        """positions are built from non-negative symbols; a negative coefficient or constant could mean 'from the end'"""
        return any(c < 0 for c in l.values())

    def cond(self, v):
        if isinstance(v, Cond):
            return v.c
        if isinstance(v, Lin):
            return mk_cmp("!=", v.l, {})
        if isinstance(v, Cst):
            return TRUE if v.v else FALSE
        if isinstance(v, (Obj,)):
            return TRUE
        return ("opaque", repr(v))

    def _encoding_ok(self, call: ast.Call, env, first_is_encoding: bool) -> bool:
        enc = None
        pos = list(call.args)
        if not first_is_encoding:
            pos = pos[1:]
        if pos:
            enc = pos[0]
        for k in call.keywords:
            if k.arg == "encoding":
                enc = k.value
            elif k.arg == "errors":
                return False
        if len(pos) > 1:
            return False
        if enc is None:
            return True  # the default is utf-8
        v = self.ev(enc, env)
        return isinstance(v, Cst) and isinstance(v.v, str) and v.v.lower().replace("_", "-") in ("utf-8", "utf8")

    def call(self, e: ast.Call, env):
        d = dotted(e.func) or ""
        if isinstance(e.func, ast.Attribute):
            base_e = e.func.value
            if e.func.attr == "decode" and not (isinstance(base_e, ast.Name) and base_e.id == "self"):
                base = self.ev(base_e, env)
                if isinstance(base, Bf):
                    if self._encoding_ok(e, env, True):
                        return Str("utf8", base.lo, base.hi)
                    return Opaque(norm_text(e)[:80])
            if e.func.attr == "split" and len(e.args) == 1 and not e.keywords:
                base = self.ev(base_e, env)
                if isinstance(base, Str):
                    return Split(base, self.ev(e.args[0], env))
        if d in ("bytes", "bytearray", "memoryview") and len(e.args) == 1 and not e.keywords:
            v = self.ev(e.args[0], env)
            if isinstance(v, Bf):
                return v
        if d == "str" and e.args:
            v = self.ev(e.args[0], env)
            if isinstance(v, Bf) and (len(e.args) > 1 or e.keywords) and self._encoding_ok(e, env, False):
                return Str("utf8", v.lo, v.hi)
        if d == "bool" and len(e.args) == 1:
            return Cond(self.cond(self.ev(e.args[0], env)))
        if d == "int" and len(e.args) == 1:
            v = self.ev(e.args[0], env)
            if isinstance(v, Lin):
                return v
        if d == "len" and len(e.args) == 1:
            v = self.ev(e.args[0], env)
            if isinstance(v, Bf) and v.hi is not None:
                return Lin(ladd(v.hi, v.lo, -1))
            return Opaque(norm_text(e))
        if d == "dict" and not e.args and not e.keywords:
            self.nacc += 1
            return Acc(f"dict#{self.nacc}")
        if d == "list" and not e.args and not e.keywords:
            self.nacc += 1
            return Acc(f"list#{self.nacc}")
        if d in ("dict", "list", "tuple") and len(e.args) == 1 and not e.keywords and isinstance(e.args[0], ast.Call):
            # dict(gen(...)) / list(gen(...)) with gen a generator function of the module / class: its yields are the stores
            inner = e.args[0]
            di = dotted(inner.func) or ""
            gfn, gskip = None, 0
            if di.startswith("self.") and di.count(".") == 1 and self.cls is not None:
                found = self.repo.find_method(self.cls, di.split(".")[1])
                gfn = found[1] if found else None
                gskip = 1 if gfn is not None and not any((dotted(x) or "") == "staticmethod" for x in gfn.decorator_list) else 0
            elif isinstance(inner.func, ast.Name) and inner.func.id in self.module.functions:
                gfn = self.module.functions[inner.func.id]
            if gfn is not None and any(isinstance(x, (ast.Yield, ast.YieldFrom)) for x in ast.walk(gfn)) and self.depth < 4:
                self.nacc += 1
                acc = Acc(f"{'dict' if d == 'dict' else 'list'}#{self.nacc}")
                params = [a.arg for a in gfn.args.args][gskip:]
                args = [self.ev(a, env) for a in inner.args]
                if len(args) != len(params) or inner.keywords:
                    return Opaque(norm_text(e)[:80])
                sub = Offsets(self.repo, self.module, gfn, self.buf, self.hdr, self.cls)
                sub.depth, sub.nacc = self.depth + 1, self.nacc
                env2 = dict(zip(params, args))
                env2["__yield__"] = (acc.name, d == "dict")
                rest = sub.run(gfn.body, [(env2, [], [])])
                self.nacc = sub.nacc
                if len(rest) != 1 or sub.exits:
                    raise Unsupported(f"generator {gfn.name} has several exits")
                env.setdefault("__pending__", []).extend(rest[0][2])
                return acc
        if d == "range":
            r = self._range(e, env)
            return Rng(*r) if r is not None else Opaque(norm_text(e)[:80])
        fn = None
        if d.startswith("self.") and d.count(".") == 1 and self.cls is not None:
            found = self.repo.find_method(self.cls, d.split(".")[1])
            fn = found[1] if found else None
            skip = 1 if fn is not None and not any((dotted(x) or "") == "staticmethod" for x in fn.decorator_list) else 0
        elif isinstance(e.func, ast.Name) and e.func.id in self.module.functions:
            fn, skip = self.module.functions[e.func.id], 0
        if fn is not None and not isinstance(fn, ast.AsyncFunctionDef):
            args = []
            for a in e.args:
                if isinstance(a, ast.Starred):
                    sv = self.ev(a.value, env)
                    if not isinstance(sv, Tup):
                        return Opaque(norm_text(e)[:80])
                    args.extend(sv.items)
                else:
                    args.append(self.ev(a, env))
            kws = {k.arg: self.ev(k.value, env) for k in e.keywords if k.arg}
            if any(isinstance(a, (Bf, Tup)) for a in list(args) + list(kws.values())) and self.depth < 4:
                # a helper that is handed a view of the buffer: its reads are reads of this decoder
                return self.invoke(fn, skip, args, kws, env)
            return Opaque(norm_text(e)[:80])
        if d in ("min", "max") and len(e.args) >= 2 and not e.keywords:
            vs = [self.ev(a, env) for a in e.args]
            if all(isinstance(v, Lin) for v in vs):
                ks = [lconst(v.l) for v in vs]
                if all(k is not None for k in ks):
                    return Lin(lc(min(ks) if d == "min" else max(ks)))
                return Lin(ls(f"{d}({';'.join(sorted(lfmt(v.l) for v in vs))})"))
            return Opaque(norm_text(e)[:80])
        if isinstance(e.func, ast.Attribute) and e.func.attr in ("unpack_from", "unpack") and e.args:
            from .model import StructVal
            st = self.repo.try_fold(self.module, e.func.value)
            base = self.ev(e.args[0], env)
            off = self.ev(e.args[1], env) if len(e.args) > 1 else next((self.ev(k.value, env) for k in e.keywords if k.arg == "offset"), Lin({}))
            if isinstance(st, StructVal) and isinstance(base, Bf) and isinstance(off, Lin) and not self._maybe_negative(off.l):
                start = ladd(base.lo, off.l)
                env.setdefault("__pending__", []).append(("read", st.fmt, Lin(start)))
                items = []
                for sl in st.slots:
                    pos = ladd(start, lc(sl.offset))
                    if sl.code == "s":
                        items.append(Bf(pos, ladd(pos, lc(sl.size))))
                    elif sl.code in ("B", "H", "I", "L", "Q") or (sl.code == "?" and False):
                        # unsigned big/little-endian integer: sum of byte symbols with their weights
                        l = {}
                        for j in range(sl.size):
                            w = 256 ** (sl.size - 1 - j) if st.byteorder != "little" else 256 ** j
                            l = ladd(l, lscale(ls(byte_at(ladd(pos, lc(j)))), w))
                        items.append(Lin(l))
                    else:
                        # signed / float / bool codes read the same bytes differently: a distinct symbol
                        items.append(Lin(ls(f"struct[{sl.code}]@({lfmt(pos)})")))
                return Tup(items)
            return Opaque(norm_text(e)[:80])
        q = self.repo.qual(self.module, e.func) if d else None
        if q == "pyairtouch.comms.encoding.decode_c_string" and len(e.args) == 1 and not e.keywords:
            v = self.ev(e.args[0], env)
            if isinstance(v, Bf):
                return Str("cstr", v.lo, v.hi)
            return Opaque(norm_text(e)[:80])
        ci = self.repo.resolve_class(self.module, e.func) if d else None
        if ci is not None:
            from .q import ctor_fields
            flds = ctor_fields(self.repo, self.module, e)
            if "*" not in flds:
                return Obj(ci.name, {k: self.ev(v, env) for k, v in flds.items()})
        return Opaque(norm_text(e)[:80])

    def invoke(self, fn, skip, args, kws, env):
        params = [a.arg for a in fn.args.args][skip:]
        sub = Offsets(self.repo, self.module, fn, self.buf, self.hdr, self.cls)
        sub.depth = self.depth + 1
        sub.nacc = self.nacc
        env2 = {"__shadow__": {self.hdr}} if self.hdr not in params else {}
        for p_, v in zip(params, args):
            env2[p_] = v
        env2.update(kws)
        defaults = fn.args.defaults
        for p_, dflt in zip(params[len(params) - len(defaults):], defaults):
            if p_ not in env2:
                env2[p_] = self.ev(dflt, {})
        if any(p_ not in env2 for p_ in params):
            return Opaque(f"call of {fn.name} with missing arguments")
        rest = sub.run(fn.body, [(env2, [], [])])
        self.nacc = sub.nacc
        rets = [x for x in sub.exits if x.kind == "return"] + [Exit("return", c, Cst(None), em) for _, c, em in rest]
        events = []
        for x in sub.exits:
            for ev_ in x.emits:
                if isinstance(ev_, tuple) and ev_ and ev_[0] == "read" and not any(repr(ev_) == repr(y) for y in events):
                    events.append(ev_)
            if any(isinstance(ev_, Loop) or (isinstance(ev_, tuple) and ev_[0] != "read") for ev_ in x.emits):
                raise Unsupported(f"helper {fn.name} stores or loops")
        env.setdefault("__pending__", []).extend(events)
        if len(rets) == 1 and not rets[0].conds:
            return rets[0].value
        return Opaque(f"{fn.name}(...)")

    # ---- statements ------------------------------------------------------------------------------
    def run(self, stmts, states):
        """states: list of (env, conds, emits). Returns the states that fall through."""
        for st in stmts:
            nxt = []
            for env, conds, emits in states:
                nxt.extend(self.step(st, env, conds, emits))
            states = nxt
            if not states:
                break
        for env, conds, emits in states:
            self._flush(env, emits)
        return states

    def _flush(self, env, emits):
        pend = env.get("__pending__")
        if pend:
            emits.extend(pend)
            del pend[:]

    def bind(self, tgt, v, env, emits):
        if isinstance(tgt, ast.Name):
            env[tgt.id] = v
            return
        if isinstance(tgt, (ast.Tuple, ast.List)):
            if isinstance(v, Tup) and len(v.items) == len(tgt.elts) and not any(isinstance(t, ast.Starred) for t in tgt.elts):
                for t, x in zip(tgt.elts, v.items):
                    self.bind(t, x, env, emits)
                return
            if isinstance(v, Opaque) and not any(isinstance(t, ast.Starred) for t in tgt.elts):
                for i, t in enumerate(tgt.elts):
                    self.bind(t, Opaque(f"{v.text}[{i}]"), env, emits)
                return
            raise Unsupported(f"unpacking of {v!r}")
        if isinstance(tgt, ast.Attribute) and isinstance(tgt.value, ast.Name) and tgt.value.id == "self":
            return  # object state of the decoder (e.g. a logged-once flag): not part of the reading of the bytes
        if isinstance(tgt, ast.Subscript) and isinstance(tgt.value, ast.Name) and isinstance(env.get(tgt.value.id), Acc) and not isinstance(tgt.slice, ast.Slice):
            emits.append((env[tgt.value.id].name, self.ev(tgt.slice, env), v))
            return
        raise Unsupported(f"store to {norm_text(tgt)}")

    def step(self, st, env, conds, emits):
        self._flush(env, emits)
        if isinstance(st, (ast.Pass, ast.Assert, ast.Import, ast.ImportFrom)) or (isinstance(st, ast.Expr) and isinstance(st.value, ast.Constant)):
            return [(env, conds, emits)]
        if isinstance(st, ast.Assign):
            if len(st.targets) == 1 and isinstance(st.targets[0], (ast.Tuple, ast.List)) and isinstance(st.value, (ast.Tuple, ast.List)) and len(st.targets[0].elts) == len(st.value.elts):
                vals = [self.ev(x, env) for x in st.value.elts]
                self._flush(env, emits)
                for t, v in zip(st.targets[0].elts, vals):
                    self.bind(t, v, env, emits)
                return [(env, conds, emits)]
            v = self.ev(st.value, env)
            self._flush(env, emits)
            for t in st.targets:
                self.bind(t, v, env, emits)
            return [(env, conds, emits)]
        if isinstance(st, ast.AnnAssign):
            if st.value is not None:
                v = self.ev(st.value, env)
                self._flush(env, emits)
                self.bind(st.target, v, env, emits)
            return [(env, conds, emits)]
        if isinstance(st, ast.AugAssign) and isinstance(st.target, ast.Name):
            v = self.ev(ast.BinOp(left=ast.Name(id=st.target.id, ctx=ast.Load()), op=st.op, right=st.value), env)
            env[st.target.id] = v
            return [(env, conds, emits)]
        if isinstance(st, ast.Expr) and isinstance(st.value, ast.Yield) and "__yield__" in env and st.value.value is not None:
            accname, pairs = env["__yield__"]
            v = self.ev(st.value.value, env)
            self._flush(env, emits)
            if pairs:
                if not (isinstance(v, Tup) and len(v.items) == 2):
                    raise Unsupported("yield of a non-pair into dict()")
                emits.append((accname, v.items[0], v.items[1]))
            else:
                emits.append((accname, None, v))
            return [(env, conds, emits)]
        if isinstance(st, ast.Expr):
            c = st.value
            if isinstance(c, ast.Call) and isinstance(c.func, ast.Attribute) and isinstance(c.func.value, ast.Name) and isinstance(env.get(c.func.value.id), Acc):
                acc = env[c.func.value.id]
                if c.func.attr == "update" and len(c.args) == 1 and isinstance(c.args[0], ast.Dict) and not c.keywords:
                    for k, v in zip(c.args[0].keys, c.args[0].values):
                        if k is None:
                            raise Unsupported("dict unpacking in update()")
                        emits.append((acc.name, self.ev(k, env), self.ev(v, env)))
                    return [(env, conds, emits)]
                if c.func.attr == "append" and len(c.args) == 1 and not c.keywords:
                    v = self.ev(c.args[0], env)
                    self._flush(env, emits)
                    emits.append((acc.name, None, v))
                    return [(env, conds, emits)]
                if c.func.attr == "setdefault":
                    raise Unsupported(f"{c.func.attr} on an accumulator")
                raise Unsupported(f"method {c.func.attr} on an accumulator")
            if isinstance(c, ast.Call) and (dotted(c.func) or "").split(".")[0] in ("_LOGGER", "logging"):
                return [(env, conds, emits)]
            raise Unsupported(f"expression statement {norm_text(st)[:60]}")
        if isinstance(st, ast.If):
            c = self.cond(self.ev(st.test, env))
            self._flush(env, emits)
            out = []
            def lits(x):
                # a conjunction contributes its conjuncts
                if x == TRUE:
                    return []
                return [y for z in x[1:] for y in lits(z)] if x[0] == "and" else [x]
            if c != FALSE:
                out += self.run(st.body, [(dict(env), conds + lits(c), list(emits))])
            if c != TRUE:
                nc = cneg(c)
                out += self.run(st.orelse, [(dict(env), conds + lits(nc), list(emits))])
            return out
        if isinstance(st, ast.Raise):
            self.exits.append(Exit("raise", list(conds), norm_text(st.exc)[:60] if st.exc else "", list(emits), st.lineno))
            return []
        if isinstance(st, ast.Return):
            v = self.ev(st.value, env) if st.value is not None else Cst(None)
            self._flush(env, emits)
            self.exits.append(Exit("return", list(conds), v, list(emits), st.lineno))
            return []
        if isinstance(st, (ast.For, ast.While)):
            return self.loop(st, env, conds, emits)
        raise Unsupported(f"statement {type(st).__name__} at line {st.lineno}")

    def loop(self, st, env, conds, emits):
        if st.orelse:
            raise Unsupported("loop with else")
        for x in ast.walk(st):
            if isinstance(x, (ast.Break, ast.Continue)) or (x is not st and isinstance(x, (ast.For, ast.While))):
                raise Unsupported(f"{type(x).__name__} inside a loop")
            if isinstance(x, ast.Return):
                raise Unsupported("return inside a loop")
        assigned = set()
        for x in ast.walk(st):
            if isinstance(x, ast.Name) and isinstance(x.ctx, ast.Store):
                assigned.add(x.id)
        count = None
        henv = dict(env)
        syms = {}
        for v in sorted(assigned):
            cur = env.get(v)
            if isinstance(cur, Lin):
                syms[v] = f"@{v}"
                henv[v] = Lin(ls(f"@{v}"))
            elif isinstance(cur, Bf):
                if cur.hi is not None:
                    raise Unsupported(f"bounded view {v} carried through a loop")
                syms[v] = f"@{v}"
                henv[v] = Bf(ls(f"@{v}"), None)
        if isinstance(st, ast.For):
            ib = self._iter_bind(st.target, st.iter, env)
            if ib is None:
                raise Unsupported(f"for over {norm_text(st.iter)[:40]}")
            count = ib[1]
            for nm, v in ib[0].items():
                henv[nm] = v
                syms.pop(nm, None)
            head = None
        else:
            head = self.cond(self.ev(st.test, henv))
        sub = Offsets(self.repo, self.module, self.fn, self.buf, self.hdr, self.cls)
        sub.nacc = self.nacc
        sub.depth = self.depth
        henv["__pending__"] = []
        outs = sub.run(st.body, [(dict(henv), [], [])])
        self.nacc = sub.nacc
        if not outs:
            raise Unsupported("no way through the loop body")
        if len(outs) > 1:
            # several paths (e.g. a sensor / no-sensor branch): they must agree on where the positions move to and on what is read;
            # the values stored may differ from path to path and are then not tracked
            def sig(o):
                env_o, _, em_o = o
                return ([repr(env_o.get(v)) for v in sorted(syms)], [repr(x) for x in em_o if isinstance(x, tuple) and x[0] == "read"], [x[0] for x in em_o if isinstance(x, tuple) and x[0] != "read"])
            if any(sig(o) != sig(outs[0]) for o in outs[1:]):
                raise Unsupported(f"{len(outs)} ways through the loop body that read or advance differently")
            env0, c0, em0 = outs[0]
            em0 = [x if (isinstance(x, tuple) and x[0] == "read") else (x[0], x[1], Opaque("value depends on the path")) for x in em0]
            outs = [(env0, c0, em0)]
        benv, bconds, bemits = outs[0]
        raises = [tuple(x.conds) for x in sub.exits if x.kind == "raise"]
        if any(isinstance(x, Loop) for x in bemits):
            raise Unsupported("nested loop summary")
        # a carried integer that the body overwrites without reading its previous value (`end = start + size`) is not a position
        # that advances: after the loop it holds the value of the last iteration (or its initial value when there was none)
        lastvals = set()
        for v, s in list(syms.items()):
            new, old = benv.get(v), env[v]
            if isinstance(old, Lin) and isinstance(new, Lin) and s not in new.l and not any(s in repr(x) for x in bemits):
                lastvals.add(v)
                del syms[v]
        # strides
        init, stride, mapping = {}, {}, {}
        for v, s in syms.items():
            new, old = benv.get(v), env[v]
            if isinstance(old, Lin) and isinstance(new, Lin):
                d = ladd(new.l, ls(s), -1)
                i0 = old.l
            elif isinstance(old, Bf) and isinstance(new, Bf) and new.hi is None:
                d = ladd(new.lo, ls(s), -1)
                i0 = old.lo
            else:
                raise Unsupported(f"{v} changes kind inside the loop")
            if any(k.startswith("@") and k != s for k in d) and not all(_sym_free(k, s2) for k in d for s2 in syms.values() if s2 != s):
                raise Unsupported(f"stride of {v} depends on another carried position")
            init[s], stride[s] = i0, d
        # a stride that does not depend on the position (a constant, or a header value such as the announced record length) gives
        # position = start + stride * k
        const = {s: (lconst(d) if lconst(d) is not None else ("inv" if not any(("@" in k_) for k_ in d) else None)) for s, d in stride.items()}
        dyn = [s for s, k in const.items() if k is None]
        if len(dyn) > 1:
            raise Unsupported("more than one data-dependent position")
        # `while i < N: ...; i += 1` with N fixed during the loop is `for i in range(i0, N)`
        if head is not None and head[0] == "lt0":
            hl = parse_l(head[1])
            for s_, k_ in const.items():
                if k_ == 1 and hl.get(s_) == 1 and not any("@" in x for x in hl if x != s_):
                    bound = lscale({x: c for x, c in hl.items() if x != s_}, -1)  # N
                    count = ladd(bound, init[s_], -1)
                    head = None
                    break
        for s, k in const.items():
            if k is not None:
                mapping[s] = ladd(init[s], lmul(stride[s], ls("k")))  # position at iteration k
        if dyn:
            mapping[dyn[0]] = ls("p")
        sb = lambda x: subst(x, mapping)  # noqa: E731
        def on_event(ev_):
            if ev_[0] == "read":
                return ("read", ev_[1], sb(ev_[2]))
            return (ev_[0], sb(ev_[1]) if ev_[1] is not None else None, sb(ev_[2]))
        lp = Loop("for" if count is not None else "while", count, sb_c(head, mapping) if head else None,
                  {"p": init[dyn[0]]} if dyn else {}, {"p": subst_l(stride[dyn[0]], mapping)} if dyn else {},
                  [on_event(ev_) for ev_ in bemits], [tuple(sb_c(c, mapping) for c in r) for r in raises])
        emits = emits + [lp]
        # state after the loop
        out_env = dict(env)
        post = {}
        nconds = list(conds)
        for v, s in syms.items():
            k = const[s]
            if k is not None and count is not None:
                end = ladd(init[s], lmul(stride[s], count))
            elif k is not None:
                end = ladd(init[s], lmul(stride[s], ls("kend")))
            else:
                end = ls("pend")
            post[s] = end
            out_env[v] = Lin(end) if isinstance(env[v], Lin) else Bf(end, None)
        for v in lastvals:
            out_env[v] = Opaque(f"last value of {v} in the loop")
        for v in assigned:
            if v in lastvals:
                continue
            if v not in syms and v in benv and not (isinstance(st, ast.For) and v in {x.id for x in ast.walk(st.target) if isinstance(x, ast.Name)}):
                val = benv[v]
                out_env[v] = val if isinstance(val, Acc) else Opaque(f"last value of {v} in the loop")
        if head is not None:
            nconds.append(cneg(sb_c(head, post)))
        return [(out_env, nconds, emits)]

    def analyse(self):
        env = {self.buf: Bf({}, None)}
        try:
            rest = self.run(self.fn.body, [(env, [], [])])
        except Unsupported as ex:
            raise AnalysisError(f"{self.module.relpath}: {self.fn.name}: outside the offset domain: {ex}")
        for env, conds, emits in rest:
            self.exits.append(Exit("return", conds, Cst(None), emits, self.fn.end_lineno or 0))
        out = []
        for ex in self.exits:
            out.extend(_split_ite(ex))
        self.exits = out
        return self.exits


def _find_ite(v):
    if isinstance(v, Ite):
        return v
    if isinstance(v, Obj):
        for x in v.fields.values():
            r = _find_ite(x)
            if r is not None:
                return r
    if isinstance(v, Tup):
        for x in v.items:
            r = _find_ite(x)
            if r is not None:
                return r
    if isinstance(v, Split):
        return _find_ite(v.s)
    return None


def _replace(v, old, new):
    if v is old:
        return new
    if isinstance(v, Obj):
        return Obj(v.cls, {k: _replace(x, old, new) for k, x in v.fields.items()})
    if isinstance(v, Tup):
        return Tup([_replace(x, old, new) for x in v.items])
    if isinstance(v, Split):
        return Split(_replace(v.s, old, new), v.sep)
    return v


def _split_ite(ex, depth=0):
    """a conditional expression inside a returned value is the same thing as two exits"""
    it = _find_ite(ex.value) if ex.kind == "return" and depth < 6 else None
    if it is None:
        return [ex]
    out = []
    for c, val in ((it.c, it.a), (cneg(it.c), it.b)):
        if cneg(c) in ex.conds:
            continue
        conds = ex.conds if c in ex.conds else ex.conds + [c]
        out.extend(_split_ite(Exit(ex.kind, conds, _replace(ex.value, it, val), ex.emits, ex.line), depth + 1))
    return out


_NO = object()


def _sym_free(name: str, s: str) -> bool:
    return s not in name


def subst_l(l: dict, mapping: dict) -> dict:
    out = {}
    for k, c in l.items():
        if k == "":
            out = ladd(out, {"": c})
            continue
        out = ladd(out, lscale(_sub_sym(k, mapping), c))
    return out


def _sub_sym(name: str, mapping: dict) -> dict:
    if name in mapping:
        return mapping[name]
    if not any(s in name for s in mapping):
        return ls(name)
    # b@(<form>) | fd(<form>,c) | mod(<form>,c): parse the embedded form back
    if name.startswith("b@(") and name.endswith(")"):
        return ls(byte_at(subst_l(parse_l(name[3:-1]), mapping)))
    for pre in ("fd(", "mod("):
        if name.startswith(pre):
            body, c = name[len(pre):-1].rsplit(",", 1)
            inner = subst_l(parse_l(body), mapping)
            k = lconst(inner)
            if k is not None:
                return lc(k // int(c) if pre == "fd(" else k % int(c))
            return ls(f"{pre}{lfmt(inner)},{c})")
    for pre in ("min(", "max("):
        if name.startswith(pre) and name.endswith(")"):
            parts = [subst_l(parse_l(x), mapping) for x in name[len(pre):-1].split(";")]
            ks = [lconst(x) for x in parts]
            if all(k is not None for k in ks):
                return lc(min(ks) if pre == "min(" else max(ks))
            return ls(f"{pre}{';'.join(sorted(lfmt(x) for x in parts))})")
    if "@(" in name and name.endswith(")"):
        code, body = name.split("@(", 1)
        return ls(f"{code}@({lfmt(subst_l(parse_l(body[:-1]), mapping))})")
    raise Unsupported(f"cannot substitute inside {name}")


def parse_l(text: str) -> dict:
    """inverse of lfmt (terms joined by ' + ' / ' - ', `c*sym`, symbols may contain parentheses)"""
    out = {}
    depth, cur, sign, terms = 0, "", 1, []
    i = 0
    while i < len(text):
        ch = text[i]
        if ch == "(":
            depth += 1
        elif ch == ")":
            depth -= 1
        if depth == 0 and text[i:i + 3] in (" + ", " - "):
            terms.append((sign, cur))
            sign = 1 if text[i + 1] == "+" else -1
            cur = ""
            i += 3
            continue
        cur += ch
        i += 1
    terms.append((sign, cur))
    for sg, t in terms:
        t = t.strip()
        if not t:
            continue
        if t.startswith("-") and not _num(t):
            sg, t = -sg, t[1:]
        if _num(t):
            out = ladd(out, lc(Fraction(t) * sg))
            continue
        coef = Fraction(1)
        head = t.split("*", 1)
        if len(head) == 2 and _num(head[0]):
            coef, t = Fraction(head[0]), head[1]
        out = ladd(out, lscale(ls(t), coef * sg))
    return out


def _num(t: str) -> bool:
    try:
        Fraction(t)
        return True
    except (ValueError, ZeroDivisionError):
        return False


def sb_c(c, mapping):
    if c is None:
        return None
    if c[0] in ("lt0", "eq0", "ne0"):
        l = subst_l(parse_l(c[1]), mapping)
        return mk_cmp({"lt0": "<", "eq0": "==", "ne0": "!="}[c[0]], l, {})
    if c[0] in ("and", "or"):
        return (c[0],) + tuple(sb_c(x, mapping) for x in c[1:])
    if c[0] == "not":
        return cneg(sb_c(c[1], mapping))
    return c


def subst(v, mapping):
    if isinstance(v, Lin):
        return Lin(subst_l(v.l, mapping))
    if isinstance(v, Bf):
        return Bf(subst_l(v.lo, mapping), subst_l(v.hi, mapping) if v.hi is not None else None)
    if isinstance(v, Str):
        return Str(v.kind, subst_l(v.lo, mapping), subst_l(v.hi, mapping) if v.hi is not None else None)
    if isinstance(v, Split):
        return Split(subst(v.s, mapping), v.sep)
    if isinstance(v, Cond):
        return Cond(sb_c(v.c, mapping))
    if isinstance(v, Obj):
        return Obj(v.cls, {k: subst(x, mapping) for k, x in v.fields.items()})
    if isinstance(v, Tup):
        return Tup([subst(x, mapping) for x in v.items])
    return v


def simplify_exit(ex: Exit) -> Exit:
    """Uses the equalities among the path conditions of an exit: `mod(X,c) == 0` turns c*fd(X,c) into X; `pend - ML == 0` replaces
    pend by ML."""
    mapping = {}
    for c in ex.conds:
        if c[0] == "eq0":
            l = parse_l(c[1])
            syms = [s for s in l if s]
            if len(syms) == 1 and syms[0].startswith("mod(") and not l.get(""):
                body, k = syms[0][4:-1].rsplit(",", 1)
                # fd(X,k) = X/k when the remainder is 0
                mapping[f"fd({body},{k})"] = lscale(parse_l(body), Fraction(1, int(k)))
                mapping[f"cd({body},{k})"] = lscale(parse_l(body), Fraction(1, int(k)))
                mapping[syms[0]] = {}
            elif "pend" in l and abs(l["pend"]) == 1:
                rest = {k: v for k, v in l.items() if k != "pend"}
                mapping["pend"] = lscale(rest, -1 / l["pend"])
    if not mapping:
        return ex

    def on_emit(e):
        if isinstance(e, Loop):
            return Loop(e.kind, subst_l(e.count, mapping) if e.count is not None else None, e.head, e.init, e.stride, e.emits, e.raises)
        if e[0] == "read":
            return ("read", e[1], subst(e[2], mapping))
        return (e[0], subst(e[1], mapping) if e[1] is not None else None, subst(e[2], mapping))
    return Exit(ex.kind, ex.conds, subst(ex.value, mapping) if not isinstance(ex.value, str) else ex.value, [on_emit(e) for e in ex.emits], ex.line)
