"""Checker validation battery (thorough tier): static analysis of mutated scratch copies of the CURRENT tree.

* text mutants  (sa/selftest_mutants.py): single-point edits, each must be refuted by a rule of its property;
* seeded mutants (/verif/seeded/*/patch.diff): the sub-agent and reverse-fix patches, applied with patch(1);
* twins: behaviour-preserving rewrites that must stay silent.

Nothing is executed from the repository: every variant is parsed and analysed exactly like the real tree.
Scratch copies live under /dev/shm (fallback: tempfile.gettempdir()) and are removed in a finally block.
A miss is reported as SELFTEST-MISS (exit 2), never as a property violation.
"""
from __future__ import annotations

import json
import os
import shutil
import subprocess
import tempfile
from concurrent.futures import ProcessPoolExecutor

from .report import VIOLATION, VERIF, apply_known


def _scratch_base():
    base = "/dev/shm" if os.path.isdir("/dev/shm") and os.access("/dev/shm", os.W_OK) else tempfile.gettempdir()
    return tempfile.mkdtemp(prefix="verif-selftest-", dir=base)


def _copy_tree(src_root: str, dst_root: str):
    shutil.copytree(os.path.join(src_root, "pyairtouch"), os.path.join(dst_root, "pyairtouch"), ignore=shutil.ignore_patterns("__pycache__"))


def _analyse(pid: str, root: str, repo=None):
    from .main import analyse

    ctx, obs = analyse(pid, root, "quick", repo=repo)
    apply_known(pid, obs)
    viol = [o for o in obs if o.verdict == VIOLATION]
    if ctx.analysis_error and not viol:
        from .model import AnalysisError

        raise AnalysisError(ctx.analysis_error)
    return viol


def _run_variant(job):
    """job = dict(kind, id, props, root, file/old/new | patch, expect). Returns dict result."""
    base = _scratch_base()
    try:
        _copy_tree(job["root"], base)
        if job["kind"] == "patch":
            r = subprocess.run(["patch", "-p1", "-s", "-f", "-i", job["patch"]], cwd=base, capture_output=True, text=True)
            if r.returncode != 0:
                return {"id": job["id"], "status": "skipped", "why": "patch does not apply to the current tree"}
        else:
            path = os.path.join(base, job["file"])
            if not os.path.exists(path):
                return {"id": job["id"], "status": "skipped", "why": "file vanished"}
            src = open(path, encoding="utf-8").read()
            if src.count(job["old"]) < 1:
                return {"id": job["id"], "status": "skipped", "why": "anchor text not present in the current tree"}
            src = src.replace(job["old"], job["new"]) if job.get("every") else src.replace(job["old"], job["new"], 1)
            try:
                compile(src, path, "exec")
            except SyntaxError as ex:
                return {"id": job["id"], "status": "skipped", "why": f"variant does not compile: {ex}"}
            open(path, "w", encoding="utf-8").write(src)
        out = {"id": job["id"], "status": "ok", "hits": {}}
        from .model import AnalysisError, Repo

        repo = None
        if len(job["props"]) > 1:
            try:
                repo = Repo(base)  # one parse for all properties of this variant (rules never modify the model)
            except AnalysisError as ex:
                return {"id": job["id"], "status": "ok", "hits": {pid: [f"ANALYSIS-ERROR {ex}"] for pid in job["props"]}}
        for pid in job["props"]:
            try:
                v = _analyse(pid, base, repo)
                out["hits"][pid] = [f"{o.rule} {o.construct}" for o in v][:5]
            except AnalysisError as ex:
                out["hits"][pid] = [f"ANALYSIS-ERROR {ex}"]
            except Exception as ex:  # checker crash
                out["hits"][pid] = [f"CHECKER-CRASH {type(ex).__name__}: {ex}"]
        return out
    finally:
        shutil.rmtree(base, ignore_errors=True)


def _residual() -> dict:
    p = os.path.join(VERIF, "twins", "RESIDUAL.json")
    try:
        return json.load(open(p)).get("residual", {})
    except OSError:
        return {}


def jobs_for(pids, root):
    from . import selftest_mutants as M

    jobs = []
    for mu in M.MUTANTS:
        if mu["prop"] in pids:
            jobs.append({"kind": "text", "id": mu["id"], "props": [mu["prop"]], "root": root, "file": mu["file"], "old": mu["old"], "new": mu["new"], "expect": "violation"})
    for tw in M.TWINS:
        props = [p for p in tw["props"] if p in pids]
        if props:
            jobs.append({"kind": "text", "id": tw["id"], "props": props, "root": root, "file": tw["file"], "old": tw["old"], "new": tw["new"], "every": tw.get("every", False), "expect": "silent"})
    sd = os.path.join(VERIF, "seeded")
    if os.path.isdir(sd):
        for name in sorted(os.listdir(sd)):
            meta = os.path.join(sd, name, "meta.json")
            patch = os.path.join(sd, name, "patch.diff")
            if not (os.path.exists(meta) and os.path.exists(patch)):
                continue
            prop = json.load(open(meta)).get("property")
            if prop in pids:
                jobs.append({"kind": "patch", "id": f"seeded/{name}", "props": [prop], "root": root, "patch": patch, "expect": "violation"})
    td = os.path.join(VERIF, "twins")
    if os.path.isdir(td):
        for name in sorted(os.listdir(td)):
            patch = os.path.join(td, name, "patch.diff")
            if os.path.exists(patch):
                jobs.append({"kind": "patch", "id": f"twins/{name}", "props": sorted(pids), "root": root, "patch": patch, "expect": "silent"})
    return jobs


def run(pids, root, verbose=False):
    jobs = jobs_for(set(pids), root)
    results = []
    workers = min(16, max(1, len(jobs)))
    if jobs:
        with ProcessPoolExecutor(max_workers=workers) as ex:
            results = list(ex.map(_run_variant, jobs))
    failures = []
    residual_hits = []
    caught = skipped = twins = silent = 0
    per_prop = {}
    for job, res in zip(jobs, results):
        if res["status"] == "skipped":
            skipped += 1
            if verbose:
                print(f"  skipped {job['id']}: {res['why']}")
            continue
        if job["expect"] == "violation":
            pid = job["props"][0]
            hits = [h for h in res["hits"].get(pid, []) if not h.startswith(("ANALYSIS-ERROR", "CHECKER-CRASH"))]
            per_prop.setdefault(pid, [0, 0])
            per_prop[pid][1] += 1
            if hits:
                caught += 1
                per_prop[pid][0] += 1
                if verbose:
                    print(f"  caught  {job['id']}: {hits[0]}")
            else:
                failures.append(f"{job['id']} (property {pid}) not refuted: {res['hits'].get(pid)}")
        else:
            twins += 1
            noisy = {p: h for p, h in res["hits"].items() if h}
            if noisy and job["id"].split("/")[-1] in _residual():
                residual_hits.append(f"{job['id']}: {sorted(noisy)}")
                silent += 0
            elif noisy:
                failures.append(f"twin {job['id']} raised an alarm: {noisy}")
            else:
                silent += 1
                if verbose:
                    print(f"  silent  {job['id']}")
    summary = {"mutants": sum(1 for j in jobs if j["expect"] == "violation"), "caught": caught, "skipped": skipped, "twins": twins, "twins_silent": silent, "per_property": {k: f"{v[0]}/{v[1]}" for k, v in sorted(per_prop.items())}}
    summary["twins_residual_false_alarms"] = residual_hits
    return {"summary": summary, "failures": failures}
