"""Checker validation battery (placeholder until the mutant tables are filled in)."""


def run(pids, root, verbose=False):
    return {"summary": {"mutants": 0, "caught": 0, "skipped": 0, "twins": 0, "twins_silent": 0}, "failures": []}
