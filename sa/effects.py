"""E2b - may-escape (exception effect) analysis.

escapes(stmts) is computed structurally (try/except filtering) and bottom-up over the resolved call
graph.  Abstract value: a frozenset of exception class names, or TOP ("any Exception").  Every call
the analysis does not know is TOP; the few library calls assumed not to raise are the frozen table
below (DESIGN section 2, E2).  CancelledError/KeyboardInterrupt are BaseExceptions and outside the
lattice.
"""
from __future__ import annotations

import ast
import builtins
import re
from typing import Optional

from .model import ClassInfo, Module, Repo, dotted, unparse, walk_no_nested

TOP = "TOP"


def is_top(x) -> bool:
    return x == TOP


def join(a, b):
    if is_top(a) or is_top(b):
        return TOP
    return frozenset(a) | frozenset(b)


EMPTY = frozenset()

# exception classes known by name -> list of ancestors (nearest first), ending in Exception
_EXTRA_HIER = {
    "struct.error": ["Exception"],
    "asyncio.IncompleteReadError": ["EOFError", "Exception"],
    "asyncio.TimeoutError": ["TimeoutError", "OSError", "Exception"],
    "asyncio.CancelledError": ["BaseException"],
    "asyncio.InvalidStateError": ["Exception"],
}


class Effects:
    # callee patterns (on the dotted callee text) that are assumed not to raise
    NO_RAISE = [
        r"^_LOGGER\.\w+$",
        r"^logging\.\w+$",
        r"(^|\.)_loop\.(time|create_task|call_later|call_soon)$",
        r"^loop\.(time|create_task)$",
        # methods of asyncio.Task / Event and of the builtin containers, whatever the receiver is called
        r"(^|\.)\w+\.(add_done_callback|cancel|done|cancelled)$",
        r"(^|\.)\w+\.(add|discard|append|appendleft|clear|union|copy|extend|is_set)$",
        r"^asyncio\.(sleep|as_completed|current_task|get_running_loop|Event|gather)$",
        r"(^|\.)_writer\.(write|close|is_closing)$",
        r"(^|\.)_(background_tasks|connection_subscribers|message_subscribers|subscribers|subscribers_ac_state)\.(add|discard|union)$",
        r"(^|\.)_message_queue\.(append|appendleft|popleft)$",
        r"(^|\.)_heartbeat_tasks\.(append|clear)$",
        r"(^|\.)_(response_received|initialised_event|group_status_received_event)\.(set|clear|is_set|wait)$",
        r"^(len|list|set|reversed|range|isinstance|bool|id|type)$",
        r"^contextlib\.suppress$",
    ]
    OSERROR = [
        r"^asyncio\.open_connection$",
        r"(^|\.)_writer\.(drain|wait_closed)$",
    ]
    READ = [r"(^|\.)_reader\.readexactly$"]

    def __init__(self, repo: Repo):
        self.repo = repo
        self._memo: dict = {}
        self._active: set = set()
        self.trace: dict = {}  # function key -> list of (loc, callee text, escapes) contributing non-empty effects

    # ------------------------------------------------------------------ hierarchy
    def ancestors(self, name: str, module: Optional[Module] = None) -> list:
        """[name, parent, ..., 'BaseException'] using builtins, the extra table and repo classes."""
        if name in _EXTRA_HIER:
            out = [name]
            for a in _EXTRA_HIER[name]:
                out += [x for x in self.ancestors(a) if x not in out]
            return out
        short = name.split(".")[-1]
        b = getattr(builtins, short, None)
        if isinstance(b, type) and issubclass(b, BaseException) and (name == short or name.startswith("builtins.")):
            return [c.__name__ for c in b.__mro__ if c is not object]
        # repo class
        ci = None
        if module is not None:
            ci = self.repo.resolve_class(module, ast.parse(name, mode="eval").body)
        if ci is None:
            s = self.repo.resolve_abs(name)
            ci = s.cls if s is not None and s.kind == "class" else None
        if ci is not None:
            out = [ci.qualname]
            for base in ci.bases:
                bn = dotted(base)
                if bn:
                    out += [x for x in self.ancestors(self._canon(ci.module, bn), ci.module) if x not in out]
            return out
        return [name, "Exception", "BaseException"]

    def _canon(self, module: Module, name: str) -> str:
        """Canonical exception name: builtin short name, 'struct.error', 'asyncio.X' or repo qualname."""
        q = self.repo.qual(module, ast.parse(name, mode="eval").body)
        if q is None:
            return name
        if q.startswith("builtins."):
            return q.split(".")[-1]
        return q

    def caught_by(self, exc: str, handler_types: list, module: Module) -> bool:
        anc = self.ancestors(exc, module)
        for h in handler_types:
            hc = self._canon(module, h)
            if hc in anc or hc.split(".")[-1] in ("Exception", "BaseException") and "Exception" in anc:
                return True
        return False

    def is_catch_all(self, handler_types: list) -> bool:
        return any(h.split(".")[-1] in ("Exception", "BaseException") for h in handler_types)

    def minus(self, esc, handler_types: list, module: Module):
        if is_top(esc):
            return EMPTY if self.is_catch_all(handler_types) else TOP
        return frozenset(e for e in esc if not self.caught_by(e, handler_types, module))

    # ------------------------------------------------------------------ statements
    def handler_types(self, h: ast.ExceptHandler) -> list:
        if h.type is None:
            return ["BaseException"]
        elts = h.type.elts if isinstance(h.type, ast.Tuple) else [h.type]
        return [dotted(e) or unparse(e) for e in elts]

    def of_block(self, stmts, module: Module, cls: Optional[ClassInfo], ctx: str = ""):
        out = EMPTY
        for s in stmts:
            out = join(out, self.of_stmt(s, module, cls, ctx))
        return out

    def of_stmt(self, s: ast.stmt, module: Module, cls: Optional[ClassInfo], ctx: str = ""):
        if isinstance(s, (ast.FunctionDef, ast.AsyncFunctionDef, ast.ClassDef)):
            return EMPTY
        if isinstance(s, ast.Try):
            body = self.of_block(s.body, module, cls, ctx)
            rest = body
            out = EMPTY
            for h in s.handlers:
                types = self.handler_types(h)
                rest = self.minus(rest, types, module)
                hb = self.of_block(h.body, module, cls, ctx)
                # bare 're-raise' inside the handler re-raises what was caught
                if any(isinstance(x, ast.Raise) and x.exc is None for st in h.body for x in walk_no_nested(st)):
                    hb = join(hb, body if not is_top(body) else TOP)
                out = join(out, hb)
            out = join(out, rest)
            out = join(out, self.of_block(s.orelse, module, cls, ctx))
            out = join(out, self.of_block(s.finalbody, module, cls, ctx))
            return out
        if isinstance(s, (ast.With, ast.AsyncWith)):
            out = EMPTY
            sup = None
            for it in s.items:
                c = it.context_expr
                if isinstance(c, ast.Call) and (dotted(c.func) or "").split(".")[-1] == "suppress":
                    sup = [dotted(a) or unparse(a) for a in c.args]
                elif isinstance(c, ast.Call) and self.repo.qual(module, c.func) == "asyncio.timeout":
                    out = join(out, frozenset({"TimeoutError"}))
                    for a in list(c.args) + [k.value for k in c.keywords]:
                        out = join(out, self.of_expr(a, module, cls, ctx))
                else:
                    out = join(out, self.of_expr(c, module, cls, ctx))
            body = self.of_block(s.body, module, cls, ctx)
            if sup is not None:
                body = self.minus(body, sup, module)
            return join(out, body)
        if isinstance(s, ast.If):
            return join(
                self.of_expr(s.test, module, cls, ctx),
                join(self.of_block(s.body, module, cls, ctx), self.of_block(s.orelse, module, cls, ctx)),
            )
        if isinstance(s, ast.While):
            return join(
                self.of_expr(s.test, module, cls, ctx),
                join(self.of_block(s.body, module, cls, ctx), self.of_block(s.orelse, module, cls, ctx)),
            )
        if isinstance(s, (ast.For, ast.AsyncFor)):
            return join(
                self.of_expr(s.iter, module, cls, ctx),
                join(self.of_block(s.body, module, cls, ctx), self.of_block(s.orelse, module, cls, ctx)),
            )
        if isinstance(s, ast.Match):
            out = self.of_expr(s.subject, module, cls, ctx)
            for c in s.cases:
                if c.guard is not None:
                    out = join(out, self.of_expr(c.guard, module, cls, ctx))
                out = join(out, self.of_block(c.body, module, cls, ctx))
            return out
        if isinstance(s, ast.Raise):
            if s.exc is None:
                return EMPTY  # accounted for by the enclosing handler
            e = s.exc.func if isinstance(s.exc, ast.Call) else s.exc
            d = dotted(e)
            out = frozenset({self._canon(module, d)}) if d else TOP
            if isinstance(s.exc, ast.Call):
                for a in s.exc.args:
                    if not isinstance(a, (ast.Constant, ast.JoinedStr)):
                        out = join(out, self.of_expr(a, module, cls, ctx))
            return out
        if isinstance(s, ast.Assert):
            return frozenset({"AssertionError"})
        if isinstance(s, (ast.Pass, ast.Break, ast.Continue, ast.Global, ast.Nonlocal, ast.Import, ast.ImportFrom)):
            return EMPTY
        if isinstance(s, ast.Delete):
            return TOP if any(isinstance(t, ast.Subscript) for t in s.targets) else EMPTY
        # expression-bearing simple statements
        out = EMPTY
        for child in ast.iter_child_nodes(s):
            if isinstance(child, ast.expr):
                out = join(out, self.of_expr(child, module, cls, ctx))
        return out

    # ------------------------------------------------------------------ expressions
    def of_expr(self, e: ast.AST, module: Module, cls: Optional[ClassInfo], ctx: str = ""):
        out = EMPTY
        awaited = set()
        for n in walk_no_nested(e):
            if isinstance(n, ast.Await) and isinstance(n.value, ast.Call):
                awaited.add(id(n.value))
        for n in walk_no_nested(e):
            if isinstance(n, ast.Call):
                out = join(out, self._call(n, id(n) in awaited, module, cls, ctx))
            elif isinstance(n, ast.Await) and not isinstance(n.value, ast.Call):
                out = TOP  # awaiting an arbitrary awaitable (e.g. a subscriber coroutine)
            elif isinstance(n, ast.Subscript) and isinstance(n.ctx, ast.Load):
                if not self._safe_subscript(n, module):
                    out = TOP
            elif isinstance(n, ast.BinOp) and isinstance(n.op, (ast.Div, ast.FloorDiv, ast.Mod)):
                out = join(out, frozenset({"ZeroDivisionError"}))
            elif isinstance(n, (ast.ListComp, ast.SetComp, ast.DictComp, ast.GeneratorExp)):
                pass  # children are walked
            if is_top(out):
                return TOP
        return out

    def _safe_subscript(self, n: ast.Subscript, module: Module) -> bool:
        # type subscripts such as deque[...] in annotations never execute in the analysed code paths
        return False

    def _match(self, pats, text) -> bool:
        return any(re.search(p, text) for p in pats)

    def _subscriber_calls(self, module: Module) -> set:
        """ids of calls `v(...)` where v iterates over a subscriber container (`for v in <...subscribers...>` in a loop or a
        comprehension): the subscribers are declared as callables returning an Awaitable, so the call only builds a coroutine."""
        cache = self.__dict__.setdefault("_subcalls", {})
        if module.name not in cache:
            ids = set()
            for n in ast.walk(module.tree):
                gens = []
                if isinstance(n, (ast.ListComp, ast.SetComp, ast.GeneratorExp)):
                    gens = [(g.target, g.iter, [n.elt]) for g in n.generators]
                elif isinstance(n, (ast.For, ast.AsyncFor)):
                    gens = [(n.target, n.iter, n.body)]
                for tgt, it, scope in gens:
                    if isinstance(tgt, ast.Name) and "subscribers" in unparse(it):
                        for s_ in scope:
                            for c in ast.walk(s_):
                                if isinstance(c, ast.Call) and isinstance(c.func, ast.Name) and c.func.id == tgt.id:
                                    ids.add(id(c))
            cache[module.name] = ids
        return cache[module.name]

    def _call(self, call: ast.Call, awaited: bool, module: Module, cls: Optional[ClassInfo], ctx: str):
        d = dotted(call.func)
        if d is None:
            return TOP
        loc = f"{module.relpath}:{call.lineno}"
        if self._match(self.NO_RAISE, d):
            return EMPTY
        if self._match(self.OSERROR, d):
            return frozenset({"OSError"})
        if self._match(self.READ, d):
            return frozenset({"OSError", "asyncio.IncompleteReadError"})
        # subscriber invocation that only builds a coroutine: 's(...)' in a comprehension over a subscriber set
        if not awaited and "." not in d and id(call) in self._subscriber_calls(module):
            return EMPTY
        target = None
        tcls = cls
        if d.startswith("self.") and d.count(".") == 1 and cls is not None:
            found = self.repo.find_method(cls, d.split(".")[1])
            if found:
                tcls, target = found
        elif "." not in d and d in module.functions:
            target, tcls = module.functions[d], None
        else:
            q = self.repo.resolve(module, call.func)
            if q is not None and q.kind == "function":
                target, tcls, module2 = q.node, None, q.module
                esc = self._fn(target, module2, None, awaited)
                self._note(ctx, loc, d, esc)
                return esc
            ci = self.repo.resolve_class(module, call.func)
            if ci is not None and ci.is_dataclass and "__post_init__" not in ci.methods:
                return EMPTY
            if ci is not None and not ci.is_enum() and "__init__" not in ci.methods and ci.module.name.startswith("pyairtouch"):
                # plain repo class without constructor logic (e.g. exception classes)
                return EMPTY
        if target is None:
            self._note(ctx, loc, d, TOP)
            return TOP
        esc = self._fn(target, tcls.module if tcls is not None else module, tcls, awaited)
        self._note(ctx, loc, d, esc)
        return esc

    def _note(self, ctx, loc, callee, esc):
        if esc and ctx:
            self.trace.setdefault(ctx, []).append((loc, callee, "TOP" if is_top(esc) else sorted(esc)))

    def _fn(self, fn, module: Module, cls: Optional[ClassInfo], awaited: bool):
        is_async = isinstance(fn, ast.AsyncFunctionDef)
        if is_async and not awaited:
            return EMPTY  # only creates the coroutine object
        return self.of_function(fn, module, cls)

    def key(self, fn, module: Module, cls: Optional[ClassInfo]) -> str:
        return f"{module.name}.{cls.name + '.' if cls else ''}{fn.name}"

    def of_function(self, fn, module: Module, cls: Optional[ClassInfo]):
        k = self.key(fn, module, cls)
        if k in self._memo:
            return self._memo[k]
        if k in self._active:
            return EMPTY  # recursion: the cycle adds nothing beyond what the other members contribute
        self._active.add(k)
        try:
            esc = self.of_block(fn.body, module, cls, ctx=k)
        finally:
            self._active.discard(k)
        self._memo[k] = esc
        return esc

    def witness(self, key: str, depth: int = 0, seen=None) -> list:
        """A chain of call sites explaining why `key` may raise (for reports)."""
        seen = seen or set()
        if key in seen or depth > 8:
            return []
        seen.add(key)
        for loc, callee, esc in self.trace.get(key, []):
            chain = [f"{key} -> {callee} at {loc}: {esc}"]
            # descend when the callee is a repo function we have a trace for
            for k2 in self.trace:
                if k2.endswith("." + callee.split(".")[-1]) and k2 != key:
                    sub = self.witness(k2, depth + 1, seen)
                    if sub:
                        return chain + sub
            return chain
        return []
