"""E1 - program model of /repo/pyairtouch built from source text only (ast).

Nothing in here imports or executes repository code.  The only "computation" done on behalf of
the repository is constant folding of literals written in its source (arithmetic, len() of a
literal, struct.calcsize of a literal format string, enum member values).
"""
from __future__ import annotations

import ast
import os
import struct as _struct
from dataclasses import dataclass, field
from typing import Any, Optional


class AnalysisError(Exception):
    """An anchor vanished or a construct left the fragment the analysis understands."""


class NotConst(Exception):
    pass


# ----------------------------------------------------------------------------------------------
# small AST helpers


def dotted(node: ast.AST) -> Optional[str]:
    """'a.b.c' for Name/Attribute chains, else None."""
    parts = []
    while isinstance(node, ast.Attribute):
        parts.append(node.attr)
        node = node.value
    if isinstance(node, ast.Name):
        parts.append(node.id)
        return ".".join(reversed(parts))
    return None


def unparse(node: ast.AST) -> str:
    try:
        return ast.unparse(node)
    except Exception:  # pragma: no cover
        return "<%s>" % type(node).__name__


def norm_text(node: ast.AST) -> str:
    """Normalised statement text (no line numbers, single line, collapsed whitespace)."""
    return " ".join(unparse(node).split())


def walk_no_nested(node: ast.AST):
    """ast.walk that does not descend into nested function/class/lambda definitions."""
    stack = [node]
    first = True
    while stack:
        n = stack.pop()
        if not first and isinstance(n, (ast.FunctionDef, ast.AsyncFunctionDef, ast.ClassDef, ast.Lambda)):
            continue
        first = False
        yield n
        stack.extend(reversed(list(ast.iter_child_nodes(n))))


def calls_in(node: ast.AST, nested: bool = False):
    it = ast.walk(node) if nested else walk_no_nested(node)
    return [n for n in it if isinstance(n, ast.Call)]


def contains_await(node: ast.AST) -> bool:
    return any(isinstance(n, (ast.Await, ast.AsyncFor, ast.AsyncWith)) for n in walk_no_nested(node))


def call_arg(call: ast.Call, pos: Optional[int], name: Optional[str]) -> Optional[ast.expr]:
    """Argument of a call given its positional index and/or keyword name."""
    if name is not None:
        for kw in call.keywords:
            if kw.arg == name:
                return kw.value
    if pos is not None and pos < len(call.args) and not any(isinstance(a, ast.Starred) for a in call.args[: pos + 1]):
        return call.args[pos]
    return None


# ----------------------------------------------------------------------------------------------
# values produced by the constant folder


@dataclass(frozen=True)
class EnumVal:
    cls: "ClassInfo"
    name: str
    value: Any

    def __repr__(self) -> str:
        return f"{self.cls.name}.{self.name}"

    def __eq__(self, other):
        return isinstance(other, EnumVal) and other.cls is self.cls and other.name == self.name

    def __hash__(self):
        return hash((id(self.cls), self.name))


@dataclass(frozen=True)
class Slot:
    index: int  # index among the non-pad slots (= position in pack()/unpack() tuple)
    offset: int
    size: int
    code: str


_PURE_STR_METHODS = ("strip", "lstrip", "rstrip", "removeprefix", "removesuffix", "replace", "lower", "upper", "join", "hex")


class StructVal:
    def __init__(self, fmt: str):
        self.fmt = fmt
        try:
            self.size = _struct.calcsize(fmt)
        except _struct.error as ex:
            raise NotConst(f"bad struct format {fmt!r}: {ex}")
        self.slots: list[Slot] = []
        self.byteorder = "big"
        body = fmt
        if body and body[0] in "@=<>!":
            if body[0] == "<":
                self.byteorder = "little"
            elif body[0] in "@=":
                raise NotConst("native struct formats are not modelled")
            body = body[1:]
        off = 0
        num = ""
        idx = 0
        for ch in body:
            if ch.isdigit():
                num += ch
                continue
            if ch.isspace():
                continue
            n = int(num) if num else 1
            num = ""
            if ch == "x":
                off += n
            elif ch == "s":
                self.slots.append(Slot(idx, off, n, "s"))
                idx += 1
                off += n
            else:
                sz = _struct.calcsize("!" + ch)
                for _ in range(n):
                    self.slots.append(Slot(idx, off, sz, ch))
                    idx += 1
                    off += sz
        if off != self.size:
            raise NotConst("struct model size mismatch")

    def __repr__(self):
        return f"Struct({self.fmt!r})"


@dataclass
class DCVal:
    """A dataclass instance built from constants (e.g. RetryPolicy(max_retries=0, ...))."""

    cls: "ClassInfo"
    fields: dict

    def __repr__(self):
        return f"{self.cls.name}({', '.join(f'{k}={v!r}' for k, v in self.fields.items())})"


# ----------------------------------------------------------------------------------------------
# modules / classes


@dataclass
class ClassInfo:
    name: str
    module: "Module"
    node: ast.ClassDef
    bases: list = field(default_factory=list)  # ast exprs
    methods: dict = field(default_factory=dict)  # name -> FunctionDef (last definition wins)
    attrs: dict = field(default_factory=dict)  # class-level simple assignments name -> expr
    fields: list = field(default_factory=list)  # dataclass fields [(name, annotation expr, default expr|None)]
    is_dataclass: bool = False
    dataclass_frozen: bool = False

    @property
    def qualname(self) -> str:
        return f"{self.module.name}.{self.name}"

    def base_names(self) -> list:
        return [dotted(b.value if isinstance(b, ast.Subscript) else b) or unparse(b) for b in self.bases]

    def is_enum(self) -> bool:
        return any(b.split(".")[-1] in ("Enum", "IntEnum", "Flag", "IntFlag") for b in self.base_names())

    def enum_members(self, repo: "Repo") -> dict:
        """name -> folded value for Enum classes (auto() numbered 1.. like the stdlib)."""
        out = {}
        auto_n = 0
        for stmt in self.node.body:
            if isinstance(stmt, ast.Assign) and len(stmt.targets) == 1 and isinstance(stmt.targets[0], ast.Name):
                nm = stmt.targets[0].id
                if nm.startswith("_"):
                    continue
                v = stmt.value
                if isinstance(v, ast.Call) and (dotted(v.func) or "").split(".")[-1] == "auto":
                    auto_n += 1
                    out[nm] = auto_n
                else:
                    try:
                        out[nm] = repo.fold(self.module, v)
                        if isinstance(out[nm], int):
                            auto_n = out[nm]
                    except NotConst:
                        out[nm] = None
        return out

    def has_missing_hook(self) -> bool:
        return "_missing_" in self.methods

    def method_decorators(self, name: str) -> list:
        fn = self.methods.get(name)
        return [dotted(d) or dotted(getattr(d, "func", d)) or unparse(d) for d in fn.decorator_list] if fn else []

    def is_property(self, name: str) -> bool:
        return any(d.split(".")[-1] == "property" for d in self.method_decorators(name))


@dataclass
class Sym:
    kind: str  # module | class | function | const | enum_member | method | classattr | external
    module: Optional["Module"] = None
    node: Any = None
    cls: Optional[ClassInfo] = None
    name: str = ""

    def __repr__(self):
        return f"Sym({self.kind}, {self.name})"


class Module:
    def __init__(self, repo: "Repo", name: str, path: str):
        self.repo = repo
        self.name = name
        self.path = path
        self.relpath = os.path.relpath(path, repo.root)
        with open(path, encoding="utf-8") as fh:
            self.src = fh.read()
        self.tree = ast.parse(self.src, filename=path)
        self.canon_notes: list = []
        if os.environ.get("VERIF_NO_CANON") != "1":
            from . import canon

            self.tree, self.canon_notes = canon.canonicalise(self.tree, name, os.path.basename(path) == "__init__.py")
        self.is_package = os.path.basename(path) == "__init__.py"
        self.imports: dict[str, str] = {}
        self.assigns: dict[str, ast.expr] = {}
        self.assign_nodes: dict[str, ast.stmt] = {}
        self.classes: dict[str, ClassInfo] = {}
        self.functions: dict[str, ast.AST] = {}
        self._index()

    # ------------------------------------------------------------------
    def _pkg(self) -> str:
        return self.name if self.is_package else self.name.rsplit(".", 1)[0]

    def _index(self) -> None:
        for stmt in self.tree.body:
            if isinstance(stmt, ast.Import):
                for a in stmt.names:
                    if a.asname:
                        self.imports[a.asname] = a.name
                    else:
                        top = a.name.split(".")[0]
                        self.imports[top] = top
            elif isinstance(stmt, ast.ImportFrom):
                base = stmt.module or ""
                if stmt.level:
                    pkg = self._pkg().split(".")
                    pkg = pkg[: len(pkg) - (stmt.level - 1)]
                    base = ".".join(pkg + ([stmt.module] if stmt.module else []))
                for a in stmt.names:
                    self.imports[a.asname or a.name] = f"{base}.{a.name}"
            elif isinstance(stmt, ast.Assign):
                for t in stmt.targets:
                    if isinstance(t, ast.Name):
                        self.assigns[t.id] = stmt.value
                        self.assign_nodes[t.id] = stmt
            elif isinstance(stmt, ast.AnnAssign) and isinstance(stmt.target, ast.Name) and stmt.value is not None:
                self.assigns[stmt.target.id] = stmt.value
                self.assign_nodes[stmt.target.id] = stmt
            elif isinstance(stmt, ast.ClassDef):
                self.classes[stmt.name] = self._class(stmt)
            elif isinstance(stmt, (ast.FunctionDef, ast.AsyncFunctionDef)):
                self.functions[stmt.name] = stmt

    def _class(self, node: ast.ClassDef) -> ClassInfo:
        ci = ClassInfo(node.name, self, node, bases=list(node.bases))
        for d in node.decorator_list:
            dn = dotted(d) or dotted(getattr(d, "func", d)) or ""
            if dn.split(".")[-1] == "dataclass":
                ci.is_dataclass = True
                if isinstance(d, ast.Call):
                    for kw in d.keywords:
                        if kw.arg == "frozen" and isinstance(kw.value, ast.Constant):
                            ci.dataclass_frozen = bool(kw.value.value)
        for stmt in node.body:
            if isinstance(stmt, (ast.FunctionDef, ast.AsyncFunctionDef)):
                ci.methods[stmt.name] = stmt
            elif isinstance(stmt, ast.Assign):
                for t in stmt.targets:
                    if isinstance(t, ast.Name):
                        ci.attrs[t.id] = stmt.value
            elif isinstance(stmt, ast.AnnAssign) and isinstance(stmt.target, ast.Name):
                ci.fields.append((stmt.target.id, stmt.annotation, stmt.value))
                if stmt.value is not None:
                    ci.attrs[stmt.target.id] = stmt.value
        return ci

    def line(self, node: ast.AST) -> int:
        return getattr(node, "lineno", 0)

    def loc(self, node: ast.AST) -> str:
        return f"{self.relpath}:{getattr(node, 'lineno', 0)}"

    def get_class(self, name: str) -> ClassInfo:
        if name not in self.classes:
            raise AnalysisError(f"anchor vanished: class {name} in {self.relpath}")
        return self.classes[name]

    def get_function(self, qual: str):
        """'func' or 'Class.method' -> FunctionDef; AnalysisError if it vanished."""
        if "." in qual:
            c, m = qual.split(".", 1)
            ci = self.get_class(c)
            if m not in ci.methods:
                raise AnalysisError(f"anchor vanished: {qual} in {self.relpath}")
            return ci.methods[m]
        if qual not in self.functions:
            raise AnalysisError(f"anchor vanished: function {qual} in {self.relpath}")
        return self.functions[qual]

    def get_const_expr(self, name: str) -> ast.expr:
        if name not in self.assigns:
            raise AnalysisError(f"anchor vanished: module constant {name} in {self.relpath}")
        return self.assigns[name]


class Repo:
    def __init__(self, root: str = "/repo", package: str = "pyairtouch"):
        self.root = root
        self.package = package
        self.modules: dict[str, Module] = {}
        pkgdir = os.path.join(root, package)
        if not os.path.isdir(pkgdir):
            raise AnalysisError(f"package directory {pkgdir} not found")
        for dirpath, dirnames, filenames in os.walk(pkgdir):
            dirnames[:] = sorted(d for d in dirnames if d != "__pycache__")
            for fn in sorted(filenames):
                if not fn.endswith(".py"):
                    continue
                path = os.path.join(dirpath, fn)
                rel = os.path.relpath(path, root)[:-3].replace(os.sep, ".")
                if rel.endswith(".__init__"):
                    rel = rel[: -len(".__init__")]
                try:
                    self.modules[rel] = Module(self, rel, path)
                except SyntaxError as ex:
                    raise AnalysisError(f"cannot parse {path}: {ex}")
        if not os.environ.get("VERIF_NO_CANON"):
            self._expand_replace()
            self._keywordise()

    def _keywordise(self):
        """Normal form for constructions of the package's own dataclasses: positional arguments become keyword arguments through
        the field order (`At5Header(a, b, c, d, e)` == `At5Header(to_address=a, ...)`).  Evaluation order is unchanged (the
        arguments keep their order).  Calls with a starred argument, classes with their own __init__ or a dataclass base are left."""
        for m in self.modules.values():
            for c in ast.walk(m.tree):
                if not (isinstance(c, ast.Call) and c.args and dotted(c.func)) or any(isinstance(a, ast.Starred) for a in c.args):
                    continue
                try:
                    ci = self.resolve_class(m, c.func)
                except AnalysisError:
                    ci = None
                if ci is None or not ci.is_dataclass or ci.is_enum() or "__init__" in ci.methods or not ci.fields:
                    continue
                if any((bc := self.resolve_class(ci.module, b.value if isinstance(b, ast.Subscript) else b)) is not None and bc.is_dataclass for b in ci.bases if dotted(b.value if isinstance(b, ast.Subscript) else b)):
                    continue
                names = [n for n, _, _ in ci.fields]
                used = {k.arg for k in c.keywords}
                if len(c.args) > len(names) or any(names[i] in used for i in range(len(c.args))) or None in used:
                    continue
                new = []
                for i, a in enumerate(c.args):
                    kw = ast.keyword(arg=names[i], value=a)
                    ast.copy_location(kw, a)
                    new.append(kw)
                c.keywords = new + c.keywords
                c.args = []

    def _expand_replace(self):
        """`dataclasses.replace(x, f=v, ...)` with x a plain name becomes the constructor call it stands for,
        `C(f0=x.f0, ..., f=v, ...)`, when the keywords given identify exactly one dataclass C of that module (replace() calls
        C(**fields of x overridden by the keywords)); attribute reads of a local are side-effect free."""
        for m in self.modules.values():
            dcs = [ci for ci in m.classes.values() if ci.is_dataclass and not ci.is_enum() and ci.fields and "__init__" not in ci.methods]
            if not dcs:
                continue
            for c in ast.walk(m.tree):
                if not (isinstance(c, ast.Call) and (dotted(c.func) or "") in ("dataclasses.replace", "replace") and len(c.args) == 1 and isinstance(c.args[0], ast.Name) and c.keywords and all(k.arg for k in c.keywords)):
                    continue
                if dotted(c.func) == "replace" and self.qual(m, c.func) != "dataclasses.replace":
                    continue
                given = {k.arg for k in c.keywords}
                cands = [ci for ci in dcs if given <= {n for n, _, _ in ci.fields}]
                if len(cands) != 1:
                    continue
                ci = cands[0]
                x = c.args[0].id
                over = {k.arg: k.value for k in c.keywords}
                kws = []
                for n, _, _ in ci.fields:
                    v = over.get(n)
                    if v is None:
                        v = ast.Attribute(value=ast.Name(id=x, ctx=ast.Load()), attr=n, ctx=ast.Load())
                        ast.copy_location(v, c)
                        ast.fix_missing_locations(v)
                    kw = ast.keyword(arg=n, value=v)
                    ast.copy_location(kw, c)
                    kws.append(kw)
                c.func = ast.copy_location(ast.Name(id=ci.name, ctx=ast.Load()), c.func)
                c.args = []
                c.keywords = kws

    # ------------------------------------------------------------------
    def module(self, name: str) -> Module:
        if name not in self.modules:
            raise AnalysisError(f"anchor vanished: module {name}")
        return self.modules[name]

    def function_count(self) -> int:
        n = 0
        for m in self.modules.values():
            n += sum(isinstance(x, (ast.FunctionDef, ast.AsyncFunctionDef)) for x in ast.walk(m.tree))
        return n

    # ------------------------------------------------------------------ name resolution
    def resolve_abs(self, dotted_name: str) -> Optional[Sym]:
        parts = dotted_name.split(".")
        # longest module prefix
        for i in range(len(parts), 0, -1):
            mn = ".".join(parts[:i])
            if mn in self.modules:
                return self._walk(Sym("module", self.modules[mn], name=mn), parts[i:])
        if parts[0] != self.package:
            return Sym("external", name=dotted_name)
        return None

    def _walk(self, sym: Sym, rest: list) -> Optional[Sym]:
        for i, p in enumerate(rest):
            if sym.kind == "module":
                m = sym.module
                if p in m.classes:
                    sym = Sym("class", m, m.classes[p].node, m.classes[p], p)
                elif p in m.functions:
                    sym = Sym("function", m, m.functions[p], name=p)
                elif p in m.assigns:
                    sym = Sym("const", m, m.assigns[p], name=p)
                elif p in m.imports:
                    nxt = self.resolve_abs(m.imports[p])
                    if nxt is None:
                        return None
                    sym = nxt
                else:
                    sub = f"{m.name}.{p}"
                    if sub in self.modules:
                        sym = Sym("module", self.modules[sub], name=sub)
                    else:
                        return None
            elif sym.kind == "class":
                ci = sym.cls
                if ci.is_enum() and p in ci.enum_members(self):
                    sym = Sym("enum_member", ci.module, None, ci, p)
                elif p in ci.methods:
                    sym = Sym("method", ci.module, ci.methods[p], ci, p)
                elif p in ci.attrs:
                    sym = Sym("classattr", ci.module, ci.attrs[p], ci, p)
                else:
                    return None
            elif sym.kind == "const":
                # alias of a class / module-level alias, e.g. AcTimerState = x37.AcTimerState
                inner = self.resolve(sym.module, sym.node)
                if inner is None or inner.kind == "const":
                    return Sym("attr_of_const", sym.module, sym.node, name=".".join(rest[i:]))
                sym = inner
                return self._walk(sym, rest[i:])
            elif sym.kind == "external":
                return Sym("external", name=sym.name + "." + ".".join(rest[i:]))
            else:
                return Sym("attr_of", sym.module, sym.node, sym.cls, name=".".join(rest[i:]))
        return sym

    def resolve(self, module: Module, expr: ast.AST) -> Optional[Sym]:
        d = dotted(expr)
        if d is None:
            return None
        return self.resolve_dotted(module, d)

    def resolve_dotted(self, module: Module, d: str) -> Optional[Sym]:
        parts = d.split(".")
        head = parts[0]
        if head in module.classes:
            return self._walk(Sym("class", module, module.classes[head].node, module.classes[head], head), parts[1:])
        if head in module.functions:
            return self._walk(Sym("function", module, module.functions[head], name=head), parts[1:])
        if head in module.assigns:
            return self._walk(Sym("const", module, module.assigns[head], name=head), parts[1:])
        if head in module.imports:
            return self.resolve_abs(".".join([module.imports[head]] + parts[1:]))
        return None

    def resolve_class(self, module: Module, expr: ast.AST) -> Optional[ClassInfo]:
        """Class a Name/Attribute expression denotes (following module-level aliases)."""
        if isinstance(expr, ast.Subscript):
            expr = expr.value
        s = self.resolve(module, expr)
        seen = 0
        while s is not None and s.kind == "const" and seen < 5:
            s = self.resolve(s.module, s.node)
            seen += 1
        if s is not None and s.kind == "class":
            return s.cls
        return None

    def qual(self, module: Module, expr: ast.AST) -> Optional[str]:
        """Fully qualified name of whatever a Name/Attribute chain denotes, or None.

        Classes/functions/constants of the repo are named 'pkg.mod.Name[.member]'; library objects keep
        their dotted import path ('asyncio.timeout').
        """
        s = self.resolve(module, expr)
        if s is None:
            return None
        if s.kind == "external":
            return s.name
        if s.kind == "module":
            return s.module.name
        if s.kind in ("class", "function", "const"):
            if s.kind == "const":
                c = self.resolve_class(module, expr)
                if c is not None:
                    return c.qualname
            return f"{s.module.name}.{s.name}"
        if s.kind in ("enum_member", "method", "classattr"):
            return f"{s.cls.qualname}.{s.name}"
        return None

    # ------------------------------------------------------------------ constant folding
    def fold(self, module: Module, expr: ast.AST, env: Optional[dict] = None, _depth: int = 0) -> Any:
        if _depth > 40:
            raise NotConst("folding too deep")
        f = lambda e: self.fold(module, e, env, _depth + 1)  # noqa: E731
        if isinstance(expr, ast.Constant):
            return expr.value
        if isinstance(expr, ast.Name) and env is not None and expr.id in env:
            v = env[expr.id]
            if isinstance(v, ast.AST):
                return f(v)
            return v
        if isinstance(expr, (ast.Name, ast.Attribute)):
            if isinstance(expr, ast.Attribute):
                # attribute of a folded value first (.value / .size / dataclass field)
                try:
                    base = f(expr.value)
                except NotConst:
                    base = None
                else:
                    if isinstance(base, EnumVal) and expr.attr == "value":
                        return base.value
                    if isinstance(base, EnumVal) and expr.attr == "name":
                        return base.name
                    if isinstance(base, StructVal) and expr.attr == "size":
                        return base.size
                    if isinstance(base, StructVal) and expr.attr == "format":
                        return base.fmt
                    if isinstance(base, DCVal) and expr.attr in base.fields:
                        return base.fields[expr.attr]
                    if isinstance(base, DCVal) and _depth < 30 and expr.attr in base.cls.methods and base.cls.is_property(expr.attr):
                        # a property of a folded dataclass value whose body is one return: its expression over the fields
                        body = [st for st in base.cls.methods[expr.attr].body if not (isinstance(st, ast.Expr) and isinstance(st.value, ast.Constant))]
                        if len(body) == 1 and isinstance(body[0], ast.Return) and body[0].value is not None:
                            return self.fold(base.cls.module, body[0].value, {"self": base}, _depth + 1)
            s = self.resolve(module, expr)
            if s is None:
                raise NotConst(f"unresolved name {unparse(expr)}")
            if s.kind == "const":
                return self.fold(s.module, s.node, None, _depth + 1)
            if s.kind == "classattr":
                return self.fold(s.module, s.node, None, _depth + 1)
            if s.kind == "enum_member":
                return EnumVal(s.cls, s.name, s.cls.enum_members(self)[s.name])
            raise NotConst(f"{unparse(expr)} is not a constant ({s.kind})")
        if isinstance(expr, ast.UnaryOp):
            v = f(expr.operand)
            if isinstance(expr.op, ast.USub):
                return -v
            if isinstance(expr.op, ast.UAdd):
                return +v
            if isinstance(expr.op, ast.Invert):
                return ~v
            if isinstance(expr.op, ast.Not):
                return not v
        if isinstance(expr, ast.BinOp):
            a, b = f(expr.left), f(expr.right)
            if isinstance(a, dict) and isinstance(b, dict) and isinstance(expr.op, ast.BitOr):
                out = dict(a)
                out.update(b)
                return out
            if isinstance(a, (EnumVal, StructVal, DCVal)) or isinstance(b, (EnumVal, StructVal, DCVal)):
                raise NotConst("arithmetic on a non-number")
            try:
                op = expr.op
                if isinstance(op, ast.Add):
                    return a + b
                if isinstance(op, ast.Sub):
                    return a - b
                if isinstance(op, ast.Mult):
                    return a * b
                if isinstance(op, ast.Div):
                    return a / b
                if isinstance(op, ast.FloorDiv):
                    return a // b
                if isinstance(op, ast.Mod):
                    return a % b
                if isinstance(op, ast.LShift):
                    return a << b
                if isinstance(op, ast.RShift):
                    return a >> b
                if isinstance(op, ast.BitAnd):
                    return a & b
                if isinstance(op, ast.BitOr):
                    return a | b
                if isinstance(op, ast.BitXor):
                    return a ^ b
                if isinstance(op, ast.Pow):
                    return a**b
            except Exception as ex:
                raise NotConst(str(ex))
        if isinstance(expr, ast.Compare) and len(expr.ops) == 1:
            a, b = f(expr.left), f(expr.comparators[0])
            op = expr.ops[0]
            try:
                if isinstance(op, ast.Eq):
                    return a == b
                if isinstance(op, ast.NotEq):
                    return a != b
                if isinstance(op, ast.Lt):
                    return a < b
                if isinstance(op, ast.LtE):
                    return a <= b
                if isinstance(op, ast.Gt):
                    return a > b
                if isinstance(op, ast.GtE):
                    return a >= b
                if isinstance(op, ast.Is):
                    return a is b
                if isinstance(op, ast.IsNot):
                    return a is not b
            except Exception as ex:
                raise NotConst(str(ex))
        if isinstance(expr, ast.BoolOp):
            vals = [f(v) for v in expr.values]
            if isinstance(expr.op, ast.And):
                out = True
                for v in vals:
                    out = out and v
                return out
            out = False
            for v in vals:
                out = out or v
            return out
        if isinstance(expr, ast.Tuple):
            return tuple(f(e) for e in expr.elts)
        if isinstance(expr, ast.List):
            return [f(e) for e in expr.elts]
        if isinstance(expr, ast.Set):
            return frozenset(f(e) for e in expr.elts)
        if isinstance(expr, ast.Dict):
            out = {}
            for k, v in zip(expr.keys, expr.values):
                if k is None:
                    sub = f(v)
                    if not isinstance(sub, dict):
                        raise NotConst("** of a non-dict")
                    out.update(sub)
                else:
                    out[f(k)] = f(v)
            return out
        if isinstance(expr, ast.IfExp):
            return f(expr.body) if f(expr.test) else f(expr.orelse)
        if isinstance(expr, ast.Subscript) and not isinstance(expr.slice, ast.Slice):
            ci = self.resolve_class(module, expr.value) if dotted(expr.value) else None
            if ci is not None and ci.is_enum():
                key = f(expr.slice)
                mem = ci.enum_members(self)
                if isinstance(key, str) and key in mem:
                    return EnumVal(ci, key, mem[key])
                raise NotConst(f"{ci.name}[{key!r}] is not a member")
            base, idx = f(expr.value), f(expr.slice)
            try:
                return base[idx]
            except Exception as ex:
                raise NotConst(f"subscript: {ex}")
        if isinstance(expr, (ast.ListComp, ast.SetComp, ast.GeneratorExp, ast.DictComp)):
            def iterate(gens, env2):
                if not gens:
                    yield env2
                    return
                g0 = gens[0]
                for item in self._fold_iter(module, g0.iter, env2, _depth):
                    e3 = dict(env2)
                    self._bind_target(g0.target, item, e3)
                    if all(self.fold(module, c, e3, _depth + 1) for c in g0.ifs):
                        yield from iterate(gens[1:], e3)

            rows = list(iterate(expr.generators, dict(env or {})))
            if len(rows) > 4096:
                raise NotConst("comprehension too large")
            if isinstance(expr, ast.DictComp):
                return {self.fold(module, expr.key, e3, _depth + 1): self.fold(module, expr.value, e3, _depth + 1) for e3 in rows}
            vals = [self.fold(module, expr.elt, e3, _depth + 1) for e3 in rows]
            return frozenset(vals) if isinstance(expr, ast.SetComp) else vals
        if isinstance(expr, ast.Call):
            fn = dotted(expr.func) or ""
            q = self.qual(module, expr.func) if dotted(expr.func) else None
            if isinstance(expr.func, ast.Attribute) and expr.func.attr in ("items", "keys", "values") and not expr.args:
                try:
                    base = f(expr.func.value)
                except NotConst:
                    base = None
                if isinstance(base, dict):
                    return list(getattr(base, expr.func.attr)())
            if fn in ("list", "tuple", "dict", "set", "frozenset", "sorted") and len(expr.args) == 1 and not expr.keywords:
                items = self._fold_iter(module, expr.args[0], env, _depth)
                try:
                    return {"list": list, "tuple": tuple, "dict": dict, "set": frozenset, "frozenset": frozenset, "sorted": sorted}[fn](items)
                except Exception as ex:
                    raise NotConst(str(ex))
            if fn.split(".")[-1] == "replace" and q in ("dataclasses.replace",) and len(expr.args) == 1:
                base = f(expr.args[0])
                if isinstance(base, DCVal):
                    vals = dict(base.fields)
                    for kw in expr.keywords:
                        if kw.arg is None or kw.arg not in vals:
                            raise NotConst("replace() of an unknown field")
                        vals[kw.arg] = f(kw.value)
                    return DCVal(base.cls, vals)
            if fn == "dict.fromkeys" and 1 <= len(expr.args) <= 2:
                keys = self._fold_iter(module, expr.args[0], env, _depth)
                val = f(expr.args[1]) if len(expr.args) == 2 else None
                return {k: val for k in keys}
            if fn == "range" and 1 <= len(expr.args) <= 3:
                a = [f(x) for x in expr.args]
                if all(isinstance(x, int) for x in a) and len(range(*a)) <= 4096:
                    return list(range(*a))
            if fn in ("zip", "enumerate") and expr.args:
                its = [self._fold_iter(module, x, env, _depth) for x in expr.args]
                return list(zip(*its)) if fn == "zip" else list(enumerate(its[0]))
            q = self.qual(module, expr.func) if dotted(expr.func) else None
            if q == "struct.Struct" and expr.args:
                fmt = f(expr.args[0])
                if isinstance(fmt, str):
                    return StructVal(fmt)
            if fn == "len" and len(expr.args) == 1:
                v = f(expr.args[0])
                if isinstance(v, (bytes, str, tuple, list)):
                    return len(v)
            if isinstance(expr.func, ast.Attribute) and expr.func.attr in _PURE_STR_METHODS and len(expr.args) <= 2 and not expr.keywords:
                base = f(expr.func.value)
                if isinstance(base, (bytes, str)):
                    try:
                        return getattr(base, expr.func.attr)(*[f(a) for a in expr.args])
                    except NotConst:
                        raise
                    except Exception as ex:
                        raise NotConst(str(ex))
            ci = self.resolve_class(module, expr.func) if dotted(expr.func) else None
            if ci is not None and ci.is_dataclass:
                names = [n for n, _, _ in ci.fields]
                vals = {}
                for i, a in enumerate(expr.args):
                    if i < len(names):
                        vals[names[i]] = f(a)
                for kw in expr.keywords:
                    if kw.arg:
                        vals[kw.arg] = f(kw.value)
                for n, _, d in ci.fields:
                    if n not in vals and d is not None:
                        vals[n] = self.fold(ci.module, d, None, _depth + 1)
                return DCVal(ci, vals)
        raise NotConst(f"not a constant: {unparse(expr)}")

    def try_fold(self, module: Module, expr: ast.AST, env: Optional[dict] = None, default: Any = None) -> Any:
        try:
            return self.fold(module, expr, env)
        except NotConst:
            return default

    # ------------------------------------------------------------------ dict tables
    def _fold_iter(self, module: Module, expr: ast.AST, env, _depth: int) -> list:
        """Elements of a foldable iterable: list/tuple/set/dict values, or the members of an Enum class in definition order."""
        ci = self.resolve_class(module, expr) if dotted(expr) and not (env and isinstance(expr, ast.Name) and expr.id in env) else None
        if ci is not None and ci.is_enum():
            return [EnumVal(ci, n, v) for n, v in ci.enum_members(self).items()]
        v = self.fold(module, expr, env, _depth + 1)
        if isinstance(v, dict):
            return list(v)
        if isinstance(v, (list, tuple, frozenset, set, str, bytes)):
            return list(v)
        raise NotConst(f"not iterable: {unparse(expr)}")

    @staticmethod
    def _bind_target(target, item, env: dict):
        if isinstance(target, ast.Name):
            env[target.id] = item
        elif isinstance(target, (ast.Tuple, ast.List)) and isinstance(item, (tuple, list)) and len(item) == len(target.elts):
            for t, i in zip(target.elts, item):
                Repo._bind_target(t, i, env)
        else:
            raise NotConst("comprehension target")

    def dict_table(self, module: Module, name: str) -> list:
        """Module-level dict (literal, literal with ** of other tables, or comprehension over enum members)
        -> [(key value, value value, key node, value node)] with folded members."""
        expr = module.get_const_expr(name)
        if not (isinstance(expr, ast.Dict) and all(k is not None for k in expr.keys)):
            try:
                d = self.fold(module, expr)
            except NotConst as ex:
                raise AnalysisError(f"{module.relpath}: {name} is not a foldable table: {ex}")
            if not isinstance(d, dict):
                raise AnalysisError(f"{module.relpath}: {name} is no longer a dict")
            return [(k, v, expr, expr) for k, v in d.items()]
        out = []
        for k, v in zip(expr.keys, expr.values):
            if k is None:
                raise AnalysisError(f"{module.relpath}: {name} uses ** expansion")
            try:
                out.append((self.fold(module, k), self.fold(module, v), k, v))
            except NotConst as ex:
                raise AnalysisError(f"{module.relpath}: {name}: entry {unparse(k)} not foldable: {ex}")
        return out

    # ------------------------------------------------------------------ class hierarchy
    def subclasses_of(self, qualname: str) -> list:
        out = []
        for m in self.modules.values():
            for ci in m.classes.values():
                if self.derives_from(ci, qualname):
                    out.append(ci)
        return out

    def derives_from(self, ci: ClassInfo, qualname: str, _seen=None) -> bool:
        _seen = _seen or set()
        if ci.qualname in _seen:
            return False
        _seen.add(ci.qualname)
        for b in ci.bases:
            be = b.value if isinstance(b, ast.Subscript) else b
            bc = self.resolve_class(ci.module, be)
            if bc is None:
                continue
            if bc.qualname == qualname or self.derives_from(bc, qualname, _seen):
                return True
        return False

    def find_method(self, ci: ClassInfo, name: str):
        """Method lookup through repo base classes: (defining ClassInfo, FunctionDef) or None."""
        seen = set()
        todo = [ci]
        while todo:
            c = todo.pop(0)
            if c.qualname in seen:
                continue
            seen.add(c.qualname)
            if name in c.methods:
                return c, c.methods[name]
            for b in c.bases:
                be = b.value if isinstance(b, ast.Subscript) else b
                bc = self.resolve_class(c.module, be)
                if bc is not None:
                    todo.append(bc)
        return None
