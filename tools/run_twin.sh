#!/bin/sh
# usage: run_twin.sh <twin-id> [Cxx ...] -- apply twins/<id>/patch.diff to /repo, run the listed (default all) quick checks, revert
cd /verif
id=$1; shift
p=twins/$id/patch.diff
git -C /repo diff --quiet || { echo "/repo is dirty"; exit 2; }
git -C /repo apply $PWD/$p || { echo "$id: patch does not apply"; exit 2; }
if [ $# -eq 0 ]; then ./check all quick > /tmp/tw_$id.log 2>&1; else : > /tmp/tw_$id.log; for c in "$@"; do ./check $c quick >> /tmp/tw_$id.log 2>&1; done; fi
git -C /repo checkout -- .
grep -h 'VIOLATION\]\|ANALYSIS-ERROR' /tmp/tw_$id.log | cut -c1-260
echo "$id done"
