#!/bin/sh
# usage: import_twin.sh <worktree> <diff-file>  -- checks a behaviour-preserving refactoring written by a sub-agent (applies to /repo's tree,
# pinned suite passes with it) and copies it to /verif/twins/<name>/patch.diff
wt=$1; d=$2; name=$(basename "$d" .diff | sed 's/^twin_//')
cd "$wt" || exit 2
git checkout -q -- pyairtouch
git -C /repo apply --check "$wt/$d" || { echo "NOAPPLY $d"; exit 2; }
git apply "$d" || exit 2
t=$(/venv/bin/python -m pytest -q -p no:cacheprovider 2>&1 | tail -1)
imp=$(PYTHONPATH=$wt /venv/bin/python -c "import pyairtouch, pyairtouch.at4.api, pyairtouch.at5.api, pyairtouch.comms.socket, pyairtouch.comms.heartbeat, pyairtouch.comms.discovery, pyairtouch.factory; print('import-ok')" 2>&1 | tail -1)
git checkout -q -- pyairtouch
case "$t" in *"272 passed"*) ;; *) echo "$name TESTS FAIL [$t]"; exit 1;; esac
[ "$imp" = import-ok ] || { echo "$name IMPORT FAIL [$imp]"; exit 1; }
out=/verif/twins/$name; mkdir -p $out; cp "$d" $out/patch.diff
echo "imported $out"
