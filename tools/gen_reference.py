#!/venv/bin/python
"""Writes sa/spec/reference_symbols.json: the census of names (and their usage contexts) of the clean tree that the rules were
confirmed on.  sa/canon.py uses it to recognise renamed private names and helpers that did not exist.  Re-run after a fix: commit in /repo."""
import ast, json, os, sys
VERIF = os.path.dirname(os.path.dirname(os.path.abspath(__file__)))
sys.path.insert(0, VERIF)
from sa import canon
root = os.environ.get("VERIF_REPO", "/repo")
out = {}
for dp, dn, fns in os.walk(os.path.join(root, "pyairtouch")):
    dn[:] = sorted(d for d in dn if d != "__pycache__")
    for fn in sorted(fns):
        if fn.endswith(".py"):
            p = os.path.join(dp, fn)
            rel = os.path.relpath(p, root)[:-3].replace(os.sep, ".")
            if rel.endswith(".__init__"):
                rel = rel[:-9]
            is_pkg = fn == "__init__.py"
            out[rel] = canon.census(ast.parse(open(p, encoding="utf-8").read()), rel, is_pkg)
dst = os.path.join(VERIF, "sa", "spec", "reference_symbols.json")
json.dump(out, open(dst, "w"), indent=0, sort_keys=True)
print("wrote", dst, len(out), "modules", os.path.getsize(dst), "bytes")
