"""Text of the cross-property re-use declared in a rule module: every `reuse(ctx, "Cxx.Rk", [...], "what", ...)` call."""
import ast
import inspect


def reuse_text(mod) -> str:
    src = inspect.getsource(mod)
    items = []
    for n in ast.walk(ast.parse(src)):
        if isinstance(n, ast.Call) and isinstance(n.func, ast.Name) and n.func.id in ("reuse", "_reuse") and len(n.args) >= 4:
            rule, what = n.args[1], n.args[3]
            if isinstance(rule, ast.Constant) and isinstance(what, ast.Constant):
                items.append((rule.value, what.value))
    if not items:
        return ""
    items.sort(key=lambda rw: int("".join(c for c in rw[0].split(".")[1] if c.isdigit()) or 0))
    return " Shared mechanisms decided by the rule of another property and reported here too: " + "; ".join(f"{r}: {w}" for r, w in items) + "."
