#!/usr/bin/env python3
"""Writes seeded/<Cxx>_<tag><x>/meta.json for a round of sub-agent mutants from the NOTES_Cxx.md each author left in its
scratch worktree.  usage: gen_meta_r5.py <worktree-prefix e.g. /tmp/mut/R5> <tag e.g. r5> <origin text>"""
import json, os, re, sys

prefix, tag, origin = sys.argv[1], sys.argv[2], sys.argv[3]
for i in range(1, 20):
    pid = f"C{i:02d}"
    notes = os.path.join(prefix + pid, f"NOTES_{pid}.md")
    if not os.path.exists(notes):
        continue
    txt = open(notes).read()
    # sections start with a heading that names the change letter
    heads = list(re.finditer(r"^#{1,3}\s*(?:Change|Mutant|change|mutant)?\s*\(?([abc])\)?\b[^\n]*$", txt, re.M))
    secs = {}
    for j, h in enumerate(heads):
        secs.setdefault(h.group(1), txt[h.start(): heads[j + 1].start() if j + 1 < len(heads) else len(txt)].strip())
    for x in "abc":
        d = f"/verif/seeded/{pid}_{tag}{x}"
        if not os.path.exists(os.path.join(d, "patch.diff")):
            continue
        what = secs.get(x, "")
        mm = re.search(r"(?is)(?:what it )?needs(?:(?: in order)? to manifest)?\b[:\s]*(.*?)(?=\n\s*\n\s*[*_`-]*\s*(?:demo|clean tree|result|behaviour|with the change)|\n#|\Z)", what)
        needs = (mm.group(1).strip() if mm else "")[:1500]
        meta = {
            "id": f"{pid}_{tag}{x}",
            "property": pid,
            "origin": origin,
            "what": what[:4000] or "(see patch.diff; the author's notes had no section for this change)",
            "needs_to_manifest": needs or "(see 'what')",
            "ran": [
                "tools/import_mutant.sh: git apply in the scratch worktree; pinned pytest suite: 272 passed with the change",
                "PYTHONPATH=<worktree> /venv/bin/python demo.py: exit 0 without the change, non-zero with it",
                "tools/run_seeded.sh: git -C /repo apply patch.diff; ./check <property> quick; git -C /repo checkout -- .",
            ],
        }
        json.dump(meta, open(os.path.join(d, "meta.json"), "w"), indent=1)
        print(d, "what:", len(what), "needs:", len(needs))
