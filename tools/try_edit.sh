#!/bin/sh
# usage: try_edit.sh <file under /repo> <python-regex> <replacement> <Cxx...>  -- one-off hand mutant: edit, run the checks, revert
f=$1; pat=$2; rep=$3; shift 3
cd /verif
git -C /repo diff --quiet || { echo "/repo dirty"; exit 2; }
python3 - "$f" "$pat" "$rep" <<'PY'
import re,sys
p='/repo/'+sys.argv[1]; s=open(p).read()
n=len(re.findall(sys.argv[2], s, re.S))
if n!=1: print(f"pattern matches {n} times"); sys.exit(3)
open(p,'w').write(re.sub(sys.argv[2], sys.argv[3], s, count=1, flags=re.S))
PY
[ $? = 0 ] || { git -C /repo checkout -- .; exit 3; }
(cd /repo && /venv/bin/python -m pytest -q -p no:cacheprovider 2>&1 | tail -1)
for p in "$@"; do ./check $p quick 2>&1 | grep "VIOLATION\]\|ANALYSIS-ERROR\|HOLDS on" | cut -c1-220 | head -3; done
git -C /repo checkout -- .
