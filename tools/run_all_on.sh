#!/bin/sh
# usage: run_all_on.sh <seeded-id>  -- apply the patch to /repo, run every property's quick check, revert; prints which fire
cd /verif
id=$1; p=seeded/$id/patch.diff
git -C /repo diff --quiet || { echo "/repo is dirty"; exit 2; }
git -C /repo apply $PWD/$p || { echo "$id: patch does not apply"; exit 2; }
./check all quick > /tmp/all_$id.log 2>&1
git -C /repo checkout -- .
grep -h 'VIOLATION\]\|ANALYSIS-ERROR' /tmp/all_$id.log | cut -c1-220
