#!/bin/sh
# usage: run_seeded.sh [ids...]  -- apply each seeded patch to /repo, run ./check <prop> quick for its property (and all), revert
cd /verif
ids="$@"; [ -z "$ids" ] && ids=$(ls seeded)
git -C /repo diff --quiet || { echo "/repo is dirty"; exit 2; }
for id in $ids; do
  p=seeded/$id/patch.diff; [ -f $p ] || continue
  prop=$(echo $id | sed 's/_.*//')
  case $prop in D*) prop=$(python3 -c "import json;print(json.load(open('seeded/$id/meta.json'))['property'])");; esac
  git -C /repo apply $PWD/$p || { echo "$id: patch does not apply"; continue; }
  res=""
  for q in $prop ${EXTRA}; do
    [ -f sa/rules/$(echo $q | tr A-Z a-z).py ] || { res="$res $q=norules"; continue; }
    ./check $q quick > /tmp/seeded_$id.$q.log 2>&1; rc=$?
    res="$res $q=$rc"
  done
  git -C /repo checkout -- .
  echo "$id:$res   $(grep -h -m1 'VIOLATION\]' /tmp/seeded_$id.$prop.log 2>/dev/null | cut -c1-150)"
done
