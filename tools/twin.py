#!/venv/bin/python
"""usage: tools/twin.py <twin-name|path-to-diff> [Cxx ...]  -- analyse a scratch copy of /repo with the patch applied; print what each check reports"""
import os, sys
VERIF = os.path.dirname(os.path.dirname(os.path.abspath(__file__)))
sys.path.insert(0, VERIF)
from sa import selftest
name = sys.argv[1]
patch = name if os.path.exists(name) and name.endswith(".diff") else os.path.join(VERIF, "twins", name, "patch.diff")
pids = sys.argv[2:] or [f"C{i:02d}" for i in range(1, 20)]
verbose = os.environ.get("V")
job = {"kind": "patch", "id": name, "props": pids, "root": os.environ.get("VERIF_REPO", "/repo"), "patch": os.path.abspath(patch), "expect": "silent"}
if verbose:
    # full violation text
    import shutil, subprocess
    from sa.main import analyse
    from sa.report import apply_known, VIOLATION
    base = selftest._scratch_base()
    try:
        selftest._copy_tree(job["root"], base)
        r = subprocess.run(["patch", "-p1", "-s", "-f", "-i", job["patch"]], cwd=base, capture_output=True, text=True)
        print(r.stdout, r.stderr)
        for pid in pids:
            ctx, obs = analyse(pid, base, "quick")
            apply_known(pid, obs)
            for o in obs:
                if o.verdict == VIOLATION:
                    print(f"[{pid}] {o.rule} {o.construct} @ {o.file}:{o.line}\n      expected: {o.expected}\n      found:    {o.found}")
            if ctx.analysis_error:
                print(f"[{pid}] ANALYSIS-ERROR {ctx.analysis_error}")
    finally:
        shutil.rmtree(base, ignore_errors=True)
else:
    res = selftest._run_variant(job)
    for p, h in sorted(res.get("hits", {}).items()):
        if h:
            print(p, h)
    print(res["status"], res.get("why", ""))
