#!/bin/sh
# usage: tw.sh W2  -- import the eight twins of /tmp/mut/TW<tag> and evaluate each against all 19 checks (static only, on /repo with the patch applied)
tag=$1
cd /verif
for n in 1 2 3 4 5 6 7 8; do
  d=/tmp/mut/TW$tag/twin_${tag}_$n.diff
  [ -f $d ] || { echo "$tag_$n missing"; continue; }
  tools/import_twin.sh /tmp/mut/TW$tag twin_${tag}_$n.diff | grep -v "^imported"
done
git -C /repo diff --quiet || { echo "/repo dirty"; exit 2; }
for n in 1 2 3 4 5 6 7 8; do
  p=/verif/twins/${tag}_$n/patch.diff
  [ -f $p ] || continue
  git -C /repo apply $p || { echo "${tag}_$n NOAPPLY"; continue; }
  ./check all quick > /tmp/tw_${tag}_$n.log 2>&1
  git -C /repo checkout -- .
  al=$(grep -h 'VIOLATION\]\|ANALYSIS-ERROR' /tmp/tw_${tag}_$n.log | cut -c1-230)
  if [ -z "$al" ]; then echo "${tag}_$n silent"; else echo "${tag}_$n ALARM"; echo "$al" | head -6; fi
done
