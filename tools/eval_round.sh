#!/bin/sh
# usage: eval_round.sh <prefix e.g. /tmp/mut/R2>  -- for each <prefix>Cxx/mutant_*.diff: apply to /repo, run ./check Cxx quick, revert
cd /verif
git -C /repo diff --quiet || { echo "/repo dirty"; exit 2; }
for d in ${1}C*; do
  prop=$(basename $d | sed 's/^.*\(C[0-9][0-9]\)$/\1/')
  for f in $d/mutant_*.diff; do
    [ -f "$f" ] || continue
    git -C /repo apply $f 2>/dev/null || { echo "$(basename $f): NOAPPLY"; continue; }
    ./check $prop quick > /tmp/eval.log 2>&1; rc=$?
    git -C /repo checkout -- .
    echo "$(basename $f) [$prop] rc=$rc $(grep -m1 'VIOLATION\]\|ANALYSIS-ERROR' /tmp/eval.log | cut -c1-170)"
  done
done
