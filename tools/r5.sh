#!/bin/sh
# usage: r5.sh Cxx [tag]  -- import the three mutants of /tmp/mut/R5Cxx and evaluate them against their property's check
p=$1; tag=${2:-r5}
cd /verif
for x in a b c; do TAG=$tag tools/import_mutant.sh /tmp/mut/${RP:-R5}$p $p $x 2>&1 | grep -v "^imported"; done
tools/run_seeded.sh ${p}_${tag}a ${p}_${tag}b ${p}_${tag}c
