#!/venv/bin/python
"""usage: tools/eval_mutants.py <prefix e.g. /tmp/mut3/R3>  -- every <prefix>Cxx/mutant_*.diff is applied to a scratch copy of /repo and
analysed by the property's check (statically); prints caught / MISSED."""
import glob, os, re, sys
from concurrent.futures import ProcessPoolExecutor
VERIF = os.path.dirname(os.path.dirname(os.path.abspath(__file__)))
sys.path.insert(0, VERIF)
from sa import selftest
jobs = []
for d in sorted(glob.glob(sys.argv[1] + "C*")):
    pid = re.search(r"(C\d\d)$", d).group(1)
    for f in sorted(glob.glob(os.path.join(d, "mutant_*.diff"))):
        jobs.append({"kind": "patch", "id": os.path.basename(f), "props": [pid], "root": "/repo", "patch": f, "expect": "violation"})
with ProcessPoolExecutor(max_workers=16) as ex:
    res = list(ex.map(selftest._run_variant, jobs))
missed = 0
for j, r in zip(jobs, res):
    pid = j["props"][0]
    hits = r.get("hits", {}).get(pid, []) if r["status"] == "ok" else [f"({r.get('why')})"]
    real = [h for h in hits if not h.startswith(("ANALYSIS-ERROR", "CHECKER-CRASH", "("))]
    if real:
        print(f"caught {j['id']}: {real[0][:110]}")
    else:
        missed += 1
        print(f"MISSED {j['id']}: {hits[:1]}")
print(f"{len(jobs) - missed}/{len(jobs)} caught")
