#!/bin/sh
# usage: import_mutant.sh <worktree> <pid> <x>   -- verifies mutant_<pid>_<x>.diff + demo in the worktree, copies to /verif/seeded/<pid>_<x>
wt=$1; pid=$2; x=$3
cd "$wt" || exit 2
git checkout -q -- pyairtouch
d=mutant_${pid}_$x.diff; demo=demo_${pid}_$x.py
[ -f $d ] && [ -f $demo ] || { echo "MISSING $d/$demo"; exit 2; }
git -C /repo apply --check "$wt/$d" || { echo "NOAPPLY $d"; exit 2; }
PYTHONPATH=$wt timeout 120 /venv/bin/python $demo >/dev/null 2>&1; clean=$?
git apply $d || exit 2
t=$(/venv/bin/python -m pytest -q -p no:cacheprovider 2>&1 | tail -1)
PYTHONPATH=$wt timeout 120 /venv/bin/python $demo >/dev/null 2>&1; mut=$?
git checkout -q -- pyairtouch
echo "${pid}_$x clean=$clean mutant=$mut tests=[$t]"
case "$t" in *"272 passed"*) ;; *) echo "TESTS FAIL"; exit 1;; esac
[ $clean = 0 ] && [ $mut != 0 ] || { echo "DEMO does not discriminate"; exit 1; }
out=/verif/seeded/${pid}_${TAG:-}$x; mkdir -p $out
cp $d $out/patch.diff; cp $demo $out/demo.py
echo "imported $out"
