#!/venv/bin/python
"""Regenerate /verif/MANIFEST.json from the rule modules that exist (keeps claims and code in step)."""
import importlib
import json
import os
import sys

VERIF = os.path.dirname(os.path.dirname(os.path.abspath(__file__)))
sys.path.insert(0, VERIF)

sys.path.insert(0, os.path.dirname(os.path.abspath(__file__)))
from reuse_text import reuse_text

props = [json.loads(l) for l in open(os.path.join(VERIF, "properties.jsonl"))]
checks, na = [], []
TECH = {
    "C01": "AST/CFG dataflow: reaching definitions, who-may-mutate, post-dominance, no-await-between, flag-release on all exits (exceptional CFG), finite-set abstract interpretation of the packet counter, forward dataflow of the connection state over suspension points (re-used from C07)",
    "C02": "CFG branch dominance, no-await-between (expiry test to first byte written), constant folding, three-valued condition evaluation, call-site value-set analysis",
    "C03": "symbolic length domain + bit-provenance abstract interpretation of encoder/decoder pairs + registry model",
    "C04": "bit-provenance abstract interpretation of control encoders vs vendor tables + API table checker + value-set analysis + constant propagation of grid witnesses through the set-point and quick-timer arithmetic (checker's own interpreter, nothing of the repository is executed)",
    "C05": "bit-provenance abstract interpretation of decoders vs vendor tables, constant propagation at sentinel witnesses, buffer-offset domain for record strides and strings, reaching definitions with the loop back edge cut (per-record state)",
    "C06": "GF(2)-affine abstract interpretation of the CRC step (proof for all inputs) + table regeneration + validate-before-deliver dominance",
    "C07": "exceptional CFG, dominance/post-dominance, may-escape effect analysis over the call graph, who-may-call/write, forward dataflow of (is_connected, writer stored) over every method with a coherence obligation at every suspension point and exit",
    "C08": "deadline-loop idiom extraction with an every-wait-under-deadline obligation, constant folding, who-may-call",
    "C09": "match-statement FSM extraction, guard/shadowing analysis, affine range check",
    "C10": "table totality/naming checker, getter provenance, store-before-exit dominance, store-before-first-await",
    "C11": "guard-dominates-send, path send count, rounding/clamping shape analysis",
    "C12": "control dependence of notifications on old != new, container model, isolation shape, no-await-between container read and notification (reaching definitions)",
    "C13": "who-may-read + read-order dominance + no rejection outside the codecs (complete modulo the readexactly contract)",
    "C14": "branch structure of _connection_changed + deadline-loop idiom extraction",
    "C15": "task create/cancel pairing, dominance order in close()/shutdown(), guard analysis",
    "C16": "dominance order purge/capacity/append, comparison normal forms, accepted-idiom obligation for the purge scan",
    "C17": "fallback shape analysis (one length, raw slice), catch-all coverage, stride rules",
    "C18": "constant folding, loop ranking function evaluated over the counter, split arity/index tables, container model, constant propagation of vendor-format witness datagrams through match()",
    "C19": "sibling cross-check: signatures vs Protocol, table parity, guard skeletons",
}
for p in props:
    pid = p["id"]
    path = os.path.join(VERIF, "sa", "rules", pid.lower() + ".py")
    if not os.path.exists(path):
        na.append({"property_id": pid, "reason": "check not built yet in this session (planned, see DESIGN.md section 4)"})
        continue
    mod = importlib.import_module(f"sa.rules.{pid.lower()}")
    level = getattr(mod, "LEVEL", "other")
    expl = getattr(mod, "EXPLANATION", "") + reuse_text(mod)
    text = getattr(mod, "LEVEL_TEXT", None) or (
        ("Proof-level for the rules listed as PROOF_RULES (all inputs, by abstract interpretation in an exact domain); " if level == "proof" else "")
        + "Static decision of named structural clauses, each a necessary condition of the property whose breach breaks the behaviour; "
        "every path / every bit / every table entry / every call site is covered by construction, the behaviour over histories, timing and "
        "value-level equality is NOT decided. " + expl
    )
    checks.append(
        {
            "property_id": pid,
            "quick_cmd": f"./check {pid} quick",
            "thorough_cmd": f"./check {pid} thorough",
            "evidence_file": f"/verif/evidence/{pid}.json",
            "replay_cmd_template": "./check explain {path}",
            "engine": "sa",
            "level_claimed": {"category": level, "text": text, "design_ref": f"DESIGN.md section 4, {pid}"},
            "level_note": "Trusted base: CPython's ast parser; the checker's own engines (sa/*.py); " + "; ".join(getattr(mod, "ASSUMPTIONS", [])) + ". The check reads /repo's working tree on every run and never imports or executes pyairtouch.",
            "technique": "static analysis: " + TECH[pid],
        }
    )
m = {
    "version": 1,
    "setup_cmd": "/venv/bin/python -B -c \"import ast, sys; sys.path.insert(0, '/verif'); import sa.main\"",
    "hooks": {
        "guard": "PYAIRTOUCH_VERIF",
        "enable": "no hooks: the checks only parse /repo's source, nothing in /repo is instrumented",
        "baseline_off_cmd": "cd /repo && /venv/bin/python -m pytest -ra -q -p no:cacheprovider --timeout=900",
        "source_commits": [],
        "add_only": True,
    },
    "engines": [
        {"name": "sa", "path": "/verif/sa", "serves_properties": [c["property_id"] for c in checks], "kind_free_text": "pure-stdlib static analyser: program model + constant folder (model.py), CFG with exception edges/dominators/reaching defs (cfg.py), may-escape effects (effects.py), bit provenance (bits.py), symbolic lengths (lengths.py), GF(2) interpreter (gf2.py), rule modules (rules/cNN.py), static mutant battery (selftest.py)"}
    ],
    "checks": checks,
    "notes": "Exit codes: 0 holds, 1 VIOLATION (replay file names rule, file:line, construct, expected/found), 2 ANALYSIS-ERROR (anchor vanished / construct outside the analysable fragment / checker self-test miss; never printed as VIOLATION). Genuine defects of the pinned tree were repaired by 'fix:' commits in /repo or are listed in known_findings.json. See DESIGN.md.",
    "not_applicable": na,
}
json.dump(m, open(os.path.join(VERIF, "MANIFEST.json"), "w"), indent=1)
print(f"{len(checks)} checks claimed, {len(na)} not yet")
