"""D9: documented not-available codes in AC status must decode to absent values (or be rejected)."""
import pyairtouch.at4.comms.x2D_ac_status as s4, pyairtouch.at4.comms.hdr as h4
import pyairtouch.at5.comms.xC023_ac_status as s5, pyairtouch.at5.comms.xC0_ctrl_status as c0
b = bytes([0x40, 0x00, 0x18, 0x00, 0xFF, 0x00, 0x00, 0x00])
r = s4.AcStatusDecoder().decode(b, h4.At4Header(0,0,0,0x2D,8)).message.ac_status[0]
print("at4 temperature:", r.temperature)
b5 = bytes([0x10, 0x00, 0xFF, 0x00, 0x07, 0xFF, 0x00, 0x00])
r5 = s5.AcStatusDecoder().decode(b5, c0.ControlStatusSubHeader(0x23, 0, 8, 1)).message.ac_status[0]
print("at5 temperature:", r5.temperature, "set_point:", r5.set_point)
assert r.temperature is None and r5.temperature is None and r5.set_point is None
